#!/bin/bash
# tools/regen_findings.sh [pattern-substring]: regenerate the committed replay of every open finding whose replay no longer
# reproduces (engine changes shift the meaning of recorded choice vectors). Uses <engine> mkfinding (search until the pattern is hit).
set -u
cd "$(dirname "$(readlink -f "$0")")/.." || exit 2
./check build >/dev/null 2>&1
python3 -c "
import json
for f in json.load(open('known_findings.json'))['findings']: print(f['property'], f['pattern'], f['replay'])" | while read prop pat rep; do
  [ -n "${1:-}" ] && [[ "$pat" != *"$1"* ]] && continue
  case "$prop" in C17) e=verif-frag;; C09) e=verif-tun;; C05|C06|C07|C20) e=verif-mgr;; *) e=verif-net;; esac
  VERIF_REPLAY_QUIET=1 sim/target/release/$e replay "$rep" >/dev/null 2>&1
  if [ $? -eq 1 ]; then echo "ok      $rep"; continue; fi
  timeout 1500 sim/target/release/$e mkfinding "$prop" "$pat" "/tmp/regen.$$.json" ${RUNS:-300000} >/dev/null 2>&1
  if [ -s "/tmp/regen.$$.json" ]; then mv "/tmp/regen.$$.json" "$rep"; echo "regen   $rep"; else echo "FAILED  $rep"; fi
done
