#!/usr/bin/env python3
# tools/mkmeta.py <seeded-dir> <verified-line> <detect-line> [note]: write meta.json from the agent's meta + what was run here
import json,sys,os
d=sys.argv[1]; am=json.load(open(os.path.join(d,'agent_meta.json')))
m={"property":am.get("property"),"summary":am.get("summary"),"needs_to_manifest":am.get("needs_to_manifest"),
   "origin":"independent sub-agent given only the property record and a scratch worktree",
   "demo_cmd":am.get("demo_cmd"),"existing_tests_cmd":am.get("existing_tests_cmd"),
   "verified_here":sys.argv[2],"detected_by":sys.argv[3]}
if len(sys.argv)>4: m["note"]=sys.argv[4]
json.dump(m,open(os.path.join(d,'meta.json'),'w'),indent=1)
