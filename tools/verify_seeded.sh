#!/bin/bash
# tools/verify_seeded.sh <seeded-dir> <worktree> <demo-test-args> <existing-tests-args>
# Confirms in a scratch worktree: demo passes without the patch, fails with it; existing tests pass with it.
set -u
d=$(readlink -f "$1"); wt="$2"; demo="$3"; existing="$4"
cd "$wt" || exit 2
export CARGO_TARGET_DIR="$wt/target" CARGO_NET_OFFLINE=true
git checkout -q -- . ; git clean -fdq -e OUT -e target
git apply "$d/demo.diff" || { echo "demo.diff does not apply"; exit 2; }
cargo test --offline $demo >"$wt/v_demo_base.log" 2>&1; a=$?
git apply "$d/patch.diff" || { echo "patch.diff does not apply"; exit 2; }
cargo test --offline $demo >"$wt/v_demo_patch.log" 2>&1; b=$?
git checkout -q -- . ; git clean -fdq -e OUT -e target -e '*.log'
git apply "$d/patch.diff"
cargo test --offline $existing >"$wt/v_existing.log" 2>&1; c=$?
git checkout -q -- . ; git clean -fdq -e OUT -e target -e '*.log'
echo "$(basename $d): demo_without_patch_exit=$a demo_with_patch_exit=$b existing_with_patch_exit=$c  ($(grep -h 'test result' $wt/v_existing.log | tr '\n' ' ' | cut -c1-300))"
