#!/bin/bash
# tools/mutants.sh <Cxx> [runs]: apply each mutants/<Cxx>/*.diff to /repo, run the quick check, revert.
# A mutant counts as caught when the check exits 1 with a VIOLATION line.
set -u
cd "$(dirname "$(readlink -f "$0")")/.." || exit 2
p="$1"; runs="${2:-}"
[ -z "$(git -C /repo status --porcelain --untracked-files=no)" ] || { echo "/repo has uncommitted changes; refusing"; exit 2; }
for d in mutants/$p/*.diff; do
  git -C /repo apply "$PWD/$d" || { echo "$d: does not apply"; continue; }
  if [ -n "$runs" ]; then out=$(VERIF_RUNS=$runs ./check "$p" quick 2>&1); else out=$(./check "$p" quick 2>&1); fi
  rc=$?
  git -C /repo checkout -- .
  v=$(echo "$out" | grep -m1 "^violation in run" | cut -c1-220)
  echo "$(basename "$d"): exit=$rc ${v:-$(echo "$out" | tail -n 2 | head -n 1 | cut -c1-160)}"
done
rm -rf replays/$p
