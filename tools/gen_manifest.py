#!/usr/bin/env python3
"""Generate /verif/MANIFEST.json from the table below and validate it against the schema."""
import json, os, sys

ROOT = os.path.dirname(os.path.dirname(os.path.abspath(__file__)))

BASELINE_OFF = ("cd /repo && cargo nextest run --workspace --no-fail-fast --tool-config-file pb:/w/lib/nextest.toml "
                "--profile pb --test-threads 8 --offline || cargo test --workspace --no-fail-fast --offline")

# property -> (engine, design_ref, level text, level note, technique)
CLAIMED = {
    "C17": ("verif-frag", "DESIGN.md §3 C17",
            "Seeded search over delivery schedules and fault sequences (drop, duplicate, reorder, interleave, forged frames from a hostile peer) of the frames "
            "of up to Q+2 concurrent packets through the real Fragmenter/Defragmenter, and of datagrams through the real EdgeTun client/server tunnel states; "
            "integrity, honest-link identity, at-most-once, completeness and memory oracles evaluated after every delivered frame. Evidence, not proof.",
            "Trusted: the oracle's coverage model (a byte is legitimate iff some delivered frame of the same stream offset carried that value at that position); "
            "gotatun's WireGuard implementation and its real clock (runs are too short for its timers to fire); exploration samples the schedule space.",
            "deterministic simulation with fault injection (seeded schedule/fault search, replayable choice vector, shrinking)"),
}

CLAIMED["C09"] = ("verif-tun", "DESIGN.md §3 C09",
    "Seeded search over histories of {register, boundary-directed clock advance (exactly on / 1 ns either side of every stored expiry), purge, connect, client data, "
    "SCION-side data, timer tick} interleaved with a lossy/duplicating/reordering/replaying/mis-delivering datagram network, against the real SnapTunServer and "
    "IdentityRegistry with real WireGuard clients. Oracles: reference registry (one identity per key, one key per identity, expiry strictly after now) agrees with the real "
    "one on every identity around every expiry; every forwarded inbound payload and every client-decryptable outbound payload belongs to an identity authorised at that "
    "instant, is attributed to the authenticating identity's session, and is never replayed. A fifth of the runs put the IdentityRegistry alone under 2-3 concurrent tasks (register incl. superseding, purge, query) on a pre-emptive deterministic scheduler "
    "(hook H12: scheduling points at its write lock and state slot); the step-stamped history plus a final read must be linearizable against the reference registry. Evidence, not proof.",
    "Trusted: gotatun's cryptography and its real-clock timers (never fire in millisecond runs); the authorisation seam substitutes the virtual clock for the Instant the server reads itself; "
    "the gateway's socket loop is not simulated.",
    "deterministic simulation with fault injection (seeded history/fault search against a reference registry model; seeded pre-emptive schedules of concurrent registry callers with a linearizability check; replayable choice vector, shrinking)")

MGR_NOTE = ("Built with cargo feature verif-hooks (clock, timer, spawn, lock, hash-seed and jitter calls of the path manager go to the simulator; "
            "the managed-pair index is a model of scc::HashIndex with simulator-chosen reclamation). Trusted: internals of tokio Notify/broadcast, arc_swap; "
            "paths are TestPathBuilder products (single up-segment routes, transit ASes in three ISDs); a third of the histories run in stack mode: sends and failure reports go through the real UdpScionSocket::send_to / recv_from loop with the stack's ScmpErrorHandler over a simulated underlay (hook H10), a hand-out being the path in the emitted packet; a tenth of the C06/C07 histories are whole-system histories (drawn pocketscion network with its control plane and real routers + the endhost stack in one AS; links fail under the traffic, the routers' SCMP errors travel back to the socket and the manager; outcome oracles: no datagram refused as expired at the instant it is sent (C06), the datagram after a learned interface failure does not meet the same failure when a cached path avoids it (C07)); lookups are scripted (the real PathFetcherImpl/combinator is not in the loop). "
            "Known findings listed in known_findings.json are reported as KNOWN-FINDING lines and matched by causal pattern, not by clause.")
MGR_TECH = "deterministic simulation with fault injection (virtual-time baton scheduler over the real manager and worker task, seeded history/fault search, reference knowledge/penalty models, replayable choice vector, shrinking)"

CLAIMED["C05"] = ("verif-mgr", "DESIGN.md §3 C05",
    "Seeded search over life histories of the real MultiPathManager and its per-pair worker task on a deterministic virtual-time scheduler: sends (waiting and non-waiting), "
    "lookup outcomes drawn from {ok with arbitrary subsets/expiries/duplicate fingerprints/metadata-less paths, empty, error, stall}, boundary-directed clock advances, issue reports, "
    "stop/prefetch/garbage-collection, two destinations; policies drawn from the ACL and hop-pattern languages (parsed from generated strings) and arbitrary hash predicates. "
    "Every hand-out is checked: policy accepts it (re-evaluated by the same policy objects), endpoints match, (fingerprint, expiry) was delivered by a successful lookup for the pair, "
    "metadata-less paths never pass a metadata-dependent policy. Evidence, not proof.",
    MGR_NOTE, MGR_TECH)
CLAIMED["C06"] = ("verif-mgr", "DESIGN.md §3 C06",
    "Same engine, configurations drawn from everything the validator accepts (incl. shipped defaults), with lookup failures/stalls, clock deltas straddling expiry/threshold/refetch/back-off/dedup boundaries, "
    "repeated and duplicate issue reports. Checked at every quiescent point: no expired path handed out, sender not left without a path while the worker caches a valid one and no lookup is outstanding, "
    "cache size <= max, issue cache and FIFO <= configured size, lookup spacing >= min delay and <= back-off ceiling after a failure, no worker panic, and bounded liveness: "
    "once lookups succeed again every requested pair is served within ceiling + min delay. Evidence, not proof.",
    MGR_NOTE, MGR_TECH)
CLAIMED["C07"] = ("verif-mgr", "DESIGN.md §3 C07",
    "Same engine with report-heavy workloads over path universes with shared/disjoint first hops and transit ASes. Reference matcher (route interface lists) and reference penalty bounds computed from the "
    "documented half-lives (30 s / 90 s) decide: after a non-duplicate report concerning the active path, if a valid unpenalised alternative avoiding the interface is cached, the very next send avoids it; "
    "no path carrying a fresh penalty is handed out while such an alternative is cached (covers premature return and eligibility after decay); a report concerning no cached path leaves the active path unchanged. Evidence, not proof.",
    MGR_NOTE + " Paths without metadata are excluded from C07 runs (interface reports cannot be matched against them by design).", MGR_TECH)

CLAIMED["C20"] = ("verif-mgr", "DESIGN.md §3 C20",
    "Pre-emptive schedule search: 1-4 concurrent callers (path / cached_path / a wait on the pair's handle that does not keep the manager alive, some cancelled at a drawn await point), the worker task(s) the manager spawns, a lookup service completing each lookup with ok/empty/error at a drawn point, "
    "and a controller (stop_managing_paths, deferred garbage collection of removed entries, idle expiry by clock advance, dropping the manager in its own actor) are interleaved by a seeded scheduler that may pre-empt every actor "
    "before/after each acquisition and release of the manager's mutexes, each load/store of the active-path slot and each operation on the managed-pair index. Oracles: at every point where no actor can run, no un-cancelled caller is blocked "
    "unless a lookup for its pair is outstanding (lost wake-up) and nobody waits for a lock (deadlock); runs consisting only of concurrent first requests start exactly one worker per pair; after the last manager handle is dropped and "
    "lookups finish every worker actor terminates; while nothing was removed a waiter is not released with an error if every finished lookup delivered selectable paths; a waiter is not released by a removal requested before it arrived; "
    "a handle holder asking after the drop is over gets an error, never a path; a worker found looping at one virtual instant (spin guard) must not leave a present or late-arriving caller blocked with no lookup outstanding; no panic. Evidence, not proof.",
    MGR_NOTE + " Pre-emption exists only at hooked points; Notify, broadcast, ArcSwap internals are atomic steps; the managed-pair index is the simulator's model of scc::HashIndex (scc itself is trusted).",
    "deterministic simulation with fault injection (baton-passing actor threads with seeded pre-emption at hooked synchronisation points, quiescence/lost-wake-up oracle, replayable choice vector, shrinking)")

NET_NOTE = ("Trusted: the reference router's reading of draft-dekater-scion-dataplane and of the open-source router's checks (where the specification is open it answers 'unspecified' and nothing is compared: router alerts, "
            "future timestamps, the 337.5 s expiry boundary second, source/destination plausibility of packets from inside an AS, single-hop segments outside peering paths); the aes/cmac crates. "
            "Verdicts are compared in coarse classes (delivered@AS, link-down@(AS,if), refused), SCMP sub-codes are not. AS certificates are generated once per process. No hooks: everything goes through pocketscion's public API "
            "(one real router step per ScionNetworkSim::iter(..).next()).")
NET_TECH = "deterministic simulation with fault injection (simulator-owned links between real per-AS router steps: delay, link flaps, bit flips, misdelivery, attacker recombination of authentic segments; verdict equivalence with an independent reference router; replayable choice vector, shrinking)"
CLAIMED["C13"] = ("verif-net", "DESIGN.md §3 C13",
    "Seeded search over drawn topologies (1-3 ISDs, core meshes, parent/child DAGs with multi-homing and parallel links, peering links, colliding or sparse interface numberings, per-AS keys), "
    "packets on every kind of offered path (incl. shortcuts, peering, three segments), faulty traversals (packet delayed across hop expiry, egress link taken down in flight, single bit flips in the path and ISD-AS fields, "
    "delivery to a wrong AS/interface), an attacker endpoint recombining authentic segments harvested from offered and reversed paths (splices, loops, flipped direction/peering flags, forged SegIDs, truncations, injection from outside), "
    "and one-hop paths. Each packet is walked AS by AS through pocketscion's real router step and, under the same faults, through an independent reference router; the final verdicts must agree; "
    "a verdict is reached within the step budget; local delivery only in the destination AS; every forward goes over an existing link. Evidence, not proof.",
    NET_NOTE, NET_TECH)
CLAIMED["C01"] = ("verif-net", "DESIGN.md §3 C01",
    "Same topologies; for drawn ordered AS pairs the real control plane (SegmentRegistry::from_topology, the lister plan, real MAC chaining and signing with drawn beacon timestamps, SegIDs and expiry units, and the stock paths() entry point) "
    "and the real combinator produce the offered paths; every path is put on a packet and walked through the reference routers with the clock inside/at the edges of the validity window: it must be delivered in the destination AS "
    "within its hop count, the walk must visit exactly the (AS, ingress) sequence the path metadata announces, the reply on the SDK-reversed path of the delivered packet must reach the source, the SDK's own routers must deliver it too, "
    "and whenever an independent valley-free reachability search over the generated topology finds a route, at least one path is offered. Evidence, not proof.",
    NET_NOTE, NET_TECH)

CLAIMED["C11"] = ("verif-net", "DESIGN.md §3 C11",
    "Network reading of the property, on the same drawn topologies and control-plane-built paths: every offered non-peering path is walked through pocketscion's real routers forwards and, reversed by the SDK from the delivered packet, backwards (authentic paths verify at every hop in both directions with per-AS keys); "
    "copies of the packet are replayed at ASes already passed; and in flight, before a drawn AS step, one or two bits of an authenticated field of a hop field still to be verified (ExpTime, ConsIngress, ConsEgress, MAC), of a segment's SegID or of its timestamp are flipped. "
    "After every real router step: a refused packet leaves with exactly the path bytes it arrived with; an accepted one has a strictly larger current-hop pointer (or was delivered); accepted steps never exceed the hop-field count; a tampered packet is never delivered and is refused no later than at the AS owning the tampered hop field. "
    "The exhaustive enumeration over small segment shapes and pointer positions the property also asks for is input enumeration and is not claimed. Evidence, not proof.",
    NET_NOTE, NET_TECH)

CLAIMED["C14"] = ("verif-net", "DESIGN.md §3 C14",
    "Multi-party SCMP exchange on drawn topologies: simulated hosts (receivers registered in several ASes) and pocketscion's real NetworkSimulator::dispatch (traversal, LocalNetworkSimulation error generation, maybe_create_scmp_reply, delivery) with hosts answering through the SDK's DefaultEchoHandler; "
    "the driver owns the hosts' inboxes and decides when a host reacts. Injected: datagrams, datagrams to non-existing hosts, echo requests, SCMP errors, SCMP errors to non-existing hosts and malformed SCMP, with payloads 0..9216 B (boundary-directed around the 1232-byte budget), "
    "on control-plane-built paths, with a link of the route down, the path expired, or neither (the reference network of C13 tells which outcome is due). Every SCMP message that reaches any host is checked: checksum valid by an independent pseudo-header checksum, error packets <= 1232 B whose quote is a prefix of the injected packet "
    "(modulo the fields routers rewrite in flight); an echo request is answered exactly once with identical identifier/sequence/data, addressed back to the requester and delivered there; SCMP errors and malformed SCMP never trigger any packet; at most two packets per injection; the exchange terminates; datagram delivery is exactly-once. "
    "A third of the runs exercise the endhost side instead: the real PathUnawareUdpScionSocket::recv_from loop with the stack's ScmpErrorHandler (and optionally DefaultEchoHandler) over a simulated underlay on the simrt runtime (hook H8): datagrams and SCMP packets of every kind (all five error types, echo request/reply, traceroute, malformed, foreign protocols) "
    "arrive in drawn order, the receiving task is cancelled and restarted, the underlay wakes it spuriously, reply sending fails with WouldBlock/Closed; every datagram is returned exactly once and in order, every SCMP error reaches the registered receiver exactly once, only echo requests are answered (once). "
    "Fault 'reused buffer' (what the SDK's packet-buffer pools hand out): every SCMP packet built by the SDK or the simulator is encoded again by the SDK's encoder into a buffer holding drawn old bytes; the checksum must be valid and the SCMP message identical to the fresh encoding. "
    "A sixth of the remaining runs exercise the SNAP tunnel gateway (hook H11): a hostile tunnel peer's datagrams (spoofed/non-IP source, unsupported path types, truncations, garbage, bit flips, SCMP errors and malformed SCMP with a spoofed source, up to 9216 B) pass through one gateway packet pool, the gateway's own SCMP builder answers into reused pool buffers; every answer is an SCMP error <= 1232 B with a valid checksum quoting a prefix of the refused datagram, and SCMP errors / malformed SCMP are never answered. "
    "Not covered: the gateway's serving loop (socket, batching). Evidence, not proof.",
    NET_NOTE, NET_TECH)

NOT_APPLICABLE = {
    "C02": "pure function of a byte string (no stream, timer, shared state or fault in it): not a simulation target; needs exhaustive enumeration / a memory checker",
    "C03": "pure function of a packet model / byte string: needs an independent reference decoder and boundary-directed input generation, not a scheduler",
    "C04": "pure function of a segment set (permuting input lists is input permutation, not scheduling); its forwardability facet is simulated under C01",
    "C08": "pure predicate over (datagram, peer address); the only I/O it meets (TunnelGateway::start_server) is welded to a real tokio UdpSocket with recvmmsg, its body inline in the loop, and has no transport seam (the SCMP answers the gateway builds for refused datagrams are judged under C14 through hook H11)",
    "C10": "predicate over strings x wall-clock second; the validity window is checked inside the jsonwebtoken dependency against the process clock (no seam), the JWKS path is real HTTP",
    "C12": "pure functions of a path or packet (view/model agreement, failure atomicity of one call): no schedule, clock or fault to simulate",
    "C15": "pure parsers/printers of address text forms",
    "C16": "pure matcher and parsers of the policy languages; needs exhaustive small-instance comparison with a denotational semantics",
    "C18": "pure functions of (message, key): signature validation and RPC conversion",
    "C19": "pure function of a segment set; the stated polynomial bound is a complexity claim a simulator does not measure",
}

# planned but not yet built engines: listed as not claimed until their check exists
PENDING = {
}

ENGINES = {
    "verif-frag": ("sim/frag", "real Fragmenter/Defragmenter and EdgeTun client/server states under a simulated lossy/hostile link"),
    "verif-tun": ("sim/tun", "real SnapTunServer + IdentityRegistry + gotatun clients under a simulated datagram network and virtual clock"),
    "verif-net": ("sim/net", "pocketscion topology/registry/routers stepped AS by AS over simulator-owned links, against an independent reference router"),
    "verif-mgr": ("sim/mgr", "real MultiPathManager + per-pair worker on a deterministic virtual-time scheduler with scripted lookups"),
}

HOOK_COMMITS = []  # filled in by hand as hook commits are made in /repo


def main():
    hooks_file = os.path.join(ROOT, "tools", "hook_commits.txt")
    commits = []
    if os.path.exists(hooks_file):
        commits = [l.split()[0] for l in open(hooks_file) if l.strip() and not l.startswith("#")]
    checks = []
    for pid in sorted(CLAIMED):
        eng, ref, text, note, tech = CLAIMED[pid]
        checks.append({
            "property_id": pid,
            "quick_cmd": f"./check {pid} quick",
            "thorough_cmd": f"./check {pid} thorough",
            "evidence_file": f"/verif/evidence/{pid}.json",
            "replay_cmd_template": "./check replay {path}",
            "engine": eng,
            "level_claimed": {"category": "exploration", "text": text, "design_ref": ref},
            "level_note": note,
            "technique": tech,
        })
    na = []
    for pid in sorted(set(NOT_APPLICABLE) | set(PENDING)):
        if pid in CLAIMED:
            continue
        na.append({"property_id": pid, "reason": NOT_APPLICABLE.get(pid) or PENDING[pid]})
    used = {c["engine"] for c in checks}
    engines = [{"name": n, "path": p, "serves_properties": sorted(k for k, v in CLAIMED.items() if v[0] == n), "kind_free_text": t}
               for n, (p, t) in ENGINES.items() if n in used]
    m = {
        "version": 1,
        "setup_cmd": "./check build",
        "hooks": {
            "guard": "cargo feature `verif-hooks` (crates scion-sdk-utils, scion-stack, snap-dataplane and snap-control), off by default",
            "enable": "the sim workspace depends on /repo's crates by path with features=[\"verif-hooks\"]; ./check rebuilds from /repo's working tree",
            "baseline_off_cmd": BASELINE_OFF,
            "source_commits": commits,
            "add_only": False,
        },
        "engines": engines,
        "checks": checks,
        "not_applicable": na,
        "notes": "Technique family: deterministic simulation with fault injection. Every check is a seeded search (VERIF_SEED, default 1) over schedules, histories "
                 "and fault sequences; a violation is minimised, written to /verif/replays/<id>/ and re-played in a fresh process before it is reported. "
                 "Known findings: /verif/known_findings.json. Exit codes: 0 held, 1 VIOLATION, 2 harness error.",
    }
    out = os.path.join(ROOT, "MANIFEST.json")
    json.dump(m, open(out, "w"), indent=1)
    open(out, "a").write("\n")
    try:
        import jsonschema
        jsonschema.validate(m, json.load(open("/root/.vp/MANIFEST.schema.json")))
        print("MANIFEST.json valid;", len(checks), "checks,", len(na), "not claimed")
    except ImportError:
        print("jsonschema not available in this interpreter; written without validation")


if __name__ == "__main__":
    main()
