#!/bin/bash
# tools/seeded.sh <dir>...: for each seeded/<id>/ apply patch.diff to /repo, run the quick check of its property, revert.
set -u
cd "$(dirname "$(readlink -f "$0")")/.." || exit 2
[ -z "$(git -C /repo status --porcelain --untracked-files=no)" ] || { echo "/repo has uncommitted changes; refusing"; exit 2; }
for d in "$@"; do
  d=${d%/}
  p=$(basename "$d" | cut -c1-3)
  git -C /repo apply "$PWD/$d/patch.diff" || { echo "$d: does not apply"; continue; }
  t0=$(date +%s)
  out=$(./check "$p" ${TIER:-quick} 2>&1); rc=$?
  git -C /repo checkout -- .
  v=$(echo "$out" | grep -m1 "^violation in run" | cut -c1-260)
  echo "$(basename "$d"): exit=$rc $(( $(date +%s) - t0 ))s ${v:-$(echo "$out" | tail -n 2 | head -n 1 | cut -c1-160)}"
  rm -rf "replays/$p"
done
