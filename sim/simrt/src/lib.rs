//! simrt — a deterministic, virtual-time, optionally pre-emptive runtime for simulated actors.
//!
//! Every logical actor (a background worker spawned by the code under test, a caller waiting for a
//! path, a one-shot operation) is a real OS thread that polls its future with simrt's own
//! `block_on`, but only the holder of a single *baton* ever runs.  The engine's driver thread owns
//! the baton between steps and decides — from the run's choice stream — which runnable actor gets it
//! next.  An actor gives the baton back when its future returns `Pending`, when it finishes, and —
//! if pre-emption is armed for the run — at the scheduling points the `verif-hooks` feature places
//! around lock acquisition/release, active-slot loads/stores and concurrent-map operations.
//!
//! Time is virtual: `sleep` registers a timer; only the driver advances the clock.
//!
//! The driver thread never has a runtime installed: on it the hooks fall through to the real
//! primitives, which is safe exactly at quiescent points (no actor is inside a synchronous section).

use std::any::Any;
use std::collections::BTreeMap;
use std::future::Future;
use std::pin::Pin;
use std::sync::atomic::{AtomicBool, Ordering};
use std::sync::mpsc::{channel, Sender};
use std::sync::{Arc, Condvar, Mutex};
use std::task::{Context, Poll, Wake, Waker};
use std::time::{Duration, SystemTime};

use scion_sdk_utils::verif::{self, VerifRuntime};
use simcore::Choices;

/// Virtual time origin (seconds since the UNIX epoch).
pub const BASE_SECS: u64 = 1_700_000_000;

pub type ActorId = usize;
type BoxFut = Pin<Box<dyn Future<Output = ()> + Send>>;
pub type ProbeFn = Arc<dyn Fn(&'static str, &dyn Any) + Send + Sync>;

#[derive(Clone, Copy, PartialEq, Eq, Debug)]
pub enum AState {
    /// created, pre-empted or about to retry: can run
    Ready,
    /// its future returned `Pending`; runnable once its waker fired
    Pending,
    /// failed to take a lock; runnable once any lock was released after `epoch`
    LockWait(u64),
    Finished,
}

struct Actor {
    name: &'static str,
    state: AState,
    woken: Arc<ActorWaker>,
    cv: Arc<Condvar>,
    abort: bool,
    panic: Option<String>,
    /// label of the scheduling point the actor last yielded at
    at: &'static str,
    /// clock reads since the actor last gave the baton back (spin guard)
    clock_reads: u32,
}

struct ActorWaker {
    woken: AtomicBool,
}

impl Wake for ActorWaker {
    fn wake(self: Arc<Self>) {
        self.woken.store(true, Ordering::SeqCst);
    }
    fn wake_by_ref(self: &Arc<Self>) {
        self.woken.store(true, Ordering::SeqCst);
    }
}

struct Timer {
    id: u64,
    deadline: u64,
    waker: Waker,
}

#[derive(Clone, Copy, PartialEq, Eq, Debug)]
enum Baton {
    Driver,
    Actor(ActorId),
}

pub struct State {
    actors: Vec<Actor>,
    baton: Baton,
    now_ns: u64,
    timers: Vec<Timer>,
    timer_seq: u64,
    release_epoch: u64,
    teardown: bool,
    /// pre-emption chance at a scheduling point: num/den (0 = cooperative only)
    preempt_num: u64,
    preempt_den: u64,
    pub ch: Choices,
    pub trace: Vec<String>,
    pub faults: BTreeMap<&'static str, u64>,
    pub probes: BTreeMap<&'static str, u64>,
    /// number of baton hand-overs so far
    pub steps: u64,
    pub preemptions: u64,
    /// hash of the (actor, label) decision sequence
    pub sched_hash: u64,
    log_sched: bool,
}

struct Shared {
    st: Mutex<State>,
    driver_cv: Condvar,
    probe_fn: Mutex<Option<ProbeFn>>,
}

/// Handle owned by the driver.
#[derive(Clone)]
pub struct Sim {
    sh: Arc<Shared>,
}

struct Job {
    sh: Arc<Shared>,
    id: ActorId,
    fut: BoxFut,
}

static POOL: Mutex<Vec<Sender<Job>>> = Mutex::new(Vec::new());

thread_local! {
    static CURRENT_ACTOR: std::cell::Cell<Option<ActorId>> = const { std::cell::Cell::new(None) };
}

/// The simulated actor running on this thread (None on the driver thread).
pub fn current_actor() -> Option<ActorId> {
    CURRENT_ACTOR.with(|c| c.get())
}

const WATCHDOG: Duration = Duration::from_secs(60);

fn watchdog_fail(what: &str) -> ! {
    eprintln!("HARNESS-ERROR: simrt watchdog: {what} (a simulated actor did not give the baton back within {WATCHDOG:?} of real time)");
    std::process::exit(2);
}

fn dispatch(job: Job) {
    let idle = POOL.lock().unwrap().pop();
    let mut job = Some(job);
    if let Some(tx) = idle {
        match tx.send(job.take().unwrap()) {
            Ok(()) => return,
            Err(e) => job = Some(e.0),
        }
    }
    let (tx, rx) = channel::<Job>();
    tx.send(job.take().unwrap()).ok();
    std::thread::Builder::new()
        .name("sim-actor".into())
        .stack_size(1 << 20)
        .spawn(move || {
            simcore::runner::quiet_panics_on_this_thread();
            while let Ok(job) = rx.recv() {
                run_job(job);
                POOL.lock().unwrap().push(tx.clone());
            }
        })
        .expect("spawn actor thread");
}

impl Shared {
    /// Called by an actor: hand the baton to the driver and wait until it comes back.
    fn yield_to_driver(&self, id: ActorId, new_state: AState, at: &'static str) {
        let mut st = self.st.lock().unwrap();
        st.actors[id].state = new_state;
        st.actors[id].at = at;
        st.actors[id].clock_reads = 0;
        st.baton = Baton::Driver;
        self.driver_cv.notify_one();
        if new_state == AState::Finished {
            return;
        }
        let cv = st.actors[id].cv.clone();
        while st.baton != Baton::Actor(id) {
            st = cv.wait(st).unwrap();
        }
    }

    fn wait_first_baton(&self, id: ActorId) {
        let mut st = self.st.lock().unwrap();
        let cv = st.actors[id].cv.clone();
        while st.baton != Baton::Actor(id) {
            st = cv.wait(st).unwrap();
        }
    }
}

fn run_job(job: Job) {
    let Job { sh, id, fut } = job;
    let mut fut = Some(fut);
    sh.wait_first_baton(id);
    let rt: Arc<dyn VerifRuntime> = Arc::new(ActorRt { sh: sh.clone(), id });
    let prev = verif::install(Some(rt));
    CURRENT_ACTOR.with(|c| c.set(Some(id)));
    let aw = sh.st.lock().unwrap().actors[id].woken.clone();
    let waker = Waker::from(aw.clone());
    let mut cx = Context::from_waker(&waker);
    loop {
        let abort = sh.st.lock().unwrap().actors[id].abort;
        if abort {
            break;
        }
        aw.woken.store(false, Ordering::SeqCst);
        let r = std::panic::catch_unwind(std::panic::AssertUnwindSafe(|| fut.as_mut().unwrap().as_mut().poll(&mut cx)));
        match r {
            Ok(Poll::Ready(())) => break,
            Ok(Poll::Pending) => sh.yield_to_driver(id, AState::Pending, "pending"),
            Err(p) if p.is::<SpinAbort>() => break,
            Err(_) => {
                let msg = simcore::runner::take_last_panic().unwrap_or_else(|| "panic".into());
                sh.st.lock().unwrap().actors[id].panic = Some(msg);
                break;
            }
        }
    }
    // drop the future while still holding the baton (destructors may run code under test)
    let r = std::panic::catch_unwind(std::panic::AssertUnwindSafe(|| drop(fut.take())));
    if r.is_err() {
        let msg = simcore::runner::take_last_panic().unwrap_or_else(|| "panic in drop".into());
        let mut st = sh.st.lock().unwrap();
        if st.actors[id].panic.is_none() {
            st.actors[id].panic = Some(msg);
        }
    }
    verif::install(prev);
    CURRENT_ACTOR.with(|c| c.set(None));
    sh.yield_to_driver(id, AState::Finished, "finished");
}

/// Clock reads in one uninterrupted run of an actor after which it is made to yield (see `system_now`).
const SPIN_GUARD: u32 = 4096;

struct SpinAbort;

struct ActorRt {
    sh: Arc<Shared>,
    id: ActorId,
}

impl VerifRuntime for ActorRt {
    fn system_now(&self) -> SystemTime {
        // Spin guard: an actor that reads the clock thousands of times without ever suspending is looping at one
        // virtual instant. Hand the baton back (deterministically, no draw) so that the driver sees a runnable actor
        // and its step budget - not the real-time watchdog - decides.
        let spin = {
            let mut st = self.sh.st.lock().unwrap();
            let a = &mut st.actors[self.id];
            a.clock_reads += 1;
            if a.clock_reads >= SPIN_GUARD {
                Some(st.teardown)
            } else {
                None
            }
        };
        match spin {
            Some(false) => self.sh.yield_to_driver(self.id, AState::Ready, "spin-guard"),
            // at the end of a run a spinning actor is unwound out of its loop (no panic hook, not recorded as a panic)
            Some(true) => std::panic::resume_unwind(Box::new(SpinAbort)),
            None => {}
        }
        let ns = self.sh.st.lock().unwrap().now_ns;
        SystemTime::UNIX_EPOCH + Duration::from_secs(BASE_SECS) + Duration::from_nanos(ns)
    }

    fn sleep(&self, duration: Duration) -> Pin<Box<dyn Future<Output = ()> + Send>> {
        let now = self.sh.st.lock().unwrap().now_ns;
        let d = u64::try_from(duration.as_nanos()).unwrap_or(u64::MAX / 4);
        Box::pin(SimSleep { sh: self.sh.clone(), deadline: now.saturating_add(d), id: None })
    }

    fn spawn(&self, name: &'static str, future: Pin<Box<dyn Future<Output = ()> + Send>>) {
        spawn_inner(&self.sh, name, future);
    }

    fn sched_point(&self, label: &'static str) {
        let yield_now = {
            let mut st = self.sh.st.lock().unwrap();
            if st.teardown || st.preempt_num == 0 {
                false
            } else {
                let (n, d) = (st.preempt_num, st.preempt_den);
                st.ch.chance(n, d)
            }
        };
        if yield_now {
            {
                let mut st = self.sh.st.lock().unwrap();
                st.preemptions += 1;
            }
            self.sh.yield_to_driver(self.id, AState::Ready, label);
        }
    }

    fn lock_contended(&self, label: &'static str) {
        let epoch = self.sh.st.lock().unwrap().release_epoch;
        self.sh.yield_to_driver(self.id, AState::LockWait(epoch), label);
    }

    fn lock_released(&self, label: &'static str) {
        self.sh.st.lock().unwrap().release_epoch += 1;
        self.sched_point(label);
    }

    fn rand_u64(&self, _label: &'static str) -> u64 {
        self.sh.st.lock().unwrap().ch.u64()
    }

    fn probe(&self, key: &'static str, value: &dyn Any) {
        let f = self.sh.probe_fn.lock().unwrap().clone();
        if let Some(f) = f {
            f(key, value);
        }
    }
}

fn spawn_inner(sh: &Arc<Shared>, name: &'static str, fut: BoxFut) -> ActorId {
    let id = {
        let mut st = sh.st.lock().unwrap();
        let id = st.actors.len();
        st.actors.push(Actor {
            name,
            state: AState::Ready,
            woken: Arc::new(ActorWaker { woken: AtomicBool::new(false) }),
            cv: Arc::new(Condvar::new()),
            abort: false,
            panic: None,
            at: "spawned",
            clock_reads: 0,
        });
        id
    };
    dispatch(Job { sh: sh.clone(), id, fut });
    id
}

/// A timer on the virtual clock.
pub struct SimSleep {
    sh: Arc<Shared>,
    deadline: u64,
    id: Option<u64>,
}

impl Future for SimSleep {
    type Output = ();
    fn poll(mut self: Pin<&mut Self>, cx: &mut Context<'_>) -> Poll<()> {
        let sh = self.sh.clone();
        let mut st = sh.st.lock().unwrap();
        if st.now_ns >= self.deadline {
            if let Some(id) = self.id.take() {
                st.timers.retain(|t| t.id != id);
            }
            return Poll::Ready(());
        }
        match self.id {
            Some(id) => {
                if let Some(t) = st.timers.iter_mut().find(|t| t.id == id) {
                    t.waker = cx.waker().clone();
                } else {
                    let deadline = self.deadline;
                    st.timers.push(Timer { id, deadline, waker: cx.waker().clone() });
                }
            }
            None => {
                st.timer_seq += 1;
                let id = st.timer_seq;
                self.id = Some(id);
                let deadline = self.deadline;
                st.timers.push(Timer { id, deadline, waker: cx.waker().clone() });
            }
        }
        Poll::Pending
    }
}

impl Drop for SimSleep {
    fn drop(&mut self) {
        if let Some(id) = self.id.take() {
            if let Ok(mut st) = self.sh.st.lock() {
                st.timers.retain(|t| t.id != id);
            }
        }
    }
}

impl Sim {
    /// `preempt`: chance num/den of yielding at each scheduling point (num 0 = cooperative only).
    pub fn new(ch: Choices, trace: Vec<String>, preempt: (u64, u64), log_sched: bool) -> Sim {
        Sim {
            sh: Arc::new(Shared {
                st: Mutex::new(State {
                    actors: Vec::new(),
                    baton: Baton::Driver,
                    now_ns: 0,
                    timers: Vec::new(),
                    timer_seq: 0,
                    release_epoch: 0,
                    teardown: false,
                    preempt_num: preempt.0,
                    preempt_den: preempt.1.max(1),
                    ch,
                    trace,
                    faults: BTreeMap::new(),
                    probes: BTreeMap::new(),
                    steps: 0,
                    preemptions: 0,
                    sched_hash: 0xcbf29ce484222325,
                    log_sched,
                }),
                driver_cv: Condvar::new(),
                probe_fn: Mutex::new(None),
            }),
        }
    }

    pub fn set_probe_fn(&self, f: ProbeFn) {
        *self.sh.probe_fn.lock().unwrap() = Some(f);
    }

    pub fn with<R>(&self, f: impl FnOnce(&mut State) -> R) -> R {
        f(&mut self.sh.st.lock().unwrap())
    }

    // ---- choice stream / trace (driver side) ----
    pub fn draw(&self, bound: u64) -> u64 {
        self.with(|s| s.ch.draw(bound))
    }
    pub fn range(&self, lo: u64, hi: u64) -> u64 {
        self.with(|s| s.ch.range(lo, hi))
    }
    pub fn chance(&self, num: u64, den: u64) -> bool {
        self.with(|s| s.ch.chance(num, den))
    }
    pub fn idx(&self, len: usize) -> usize {
        self.with(|s| s.ch.idx(len))
    }
    pub fn log(&self, s: String) {
        self.with(|st| st.trace.push(s));
    }
    pub fn fault(&self, k: &'static str) {
        self.with(|st| *st.faults.entry(k).or_insert(0) += 1);
    }
    pub fn probe(&self, k: &'static str) {
        self.with(|st| *st.probes.entry(k).or_insert(0) += 1);
    }

    // ---- clock ----
    pub fn now_ns(&self) -> u64 {
        self.with(|s| s.now_ns)
    }
    pub fn now(&self) -> SystemTime {
        SystemTime::UNIX_EPOCH + Duration::from_secs(BASE_SECS) + Duration::from_nanos(self.now_ns())
    }
    /// Earliest registered timer deadline (ns), if any.
    pub fn next_timer(&self) -> Option<u64> {
        self.with(|s| s.timers.iter().map(|t| t.deadline).min())
    }
    /// Set the clock (never backwards) and fire every timer that is due, in (deadline, id) order.
    pub fn set_now(&self, ns: u64) {
        let wakers: Vec<Waker> = self.with(|s| {
            if ns > s.now_ns {
                s.now_ns = ns;
            }
            let now = s.now_ns;
            let mut due: Vec<(u64, u64)> = s.timers.iter().filter(|t| t.deadline <= now).map(|t| (t.deadline, t.id)).collect();
            due.sort();
            let mut ws = Vec::new();
            for (_, id) in due {
                if let Some(p) = s.timers.iter().position(|t| t.id == id) {
                    ws.push(s.timers.remove(p).waker);
                }
            }
            ws
        });
        for w in wakers {
            w.wake();
        }
    }

    // ---- actors ----
    pub fn spawn<F: Future<Output = ()> + Send + 'static>(&self, name: &'static str, f: F) -> ActorId {
        spawn_inner(&self.sh, name, Box::pin(f))
    }

    pub fn state(&self, id: ActorId) -> AState {
        self.with(|s| s.actors[id].state)
    }

    pub fn is_finished(&self, id: ActorId) -> bool {
        self.state(id) == AState::Finished
    }

    pub fn actor_name(&self, id: ActorId) -> &'static str {
        self.with(|s| s.actors[id].name)
    }

    pub fn actor_count(&self) -> usize {
        self.with(|s| s.actors.len())
    }

    /// Where a not-running actor last yielded ("pending", a hook label, ...).
    pub fn actor_at(&self, id: ActorId) -> &'static str {
        self.with(|s| s.actors[id].at)
    }

    fn runnable_in(s: &State) -> Vec<ActorId> {
        let mut v = Vec::new();
        for (i, a) in s.actors.iter().enumerate() {
            let r = match a.state {
                AState::Ready => true,
                AState::Pending => a.woken.woken.load(Ordering::SeqCst),
                AState::LockWait(e) => s.release_epoch > e || s.teardown,
                AState::Finished => false,
            };
            if r {
                v.push(i);
            }
        }
        v
    }

    pub fn runnable(&self) -> Vec<ActorId> {
        self.with(|s| Self::runnable_in(s))
    }

    /// Actors that are neither finished nor runnable (blocked on a wake-up or a lock).
    pub fn blocked(&self) -> Vec<ActorId> {
        self.with(|s| {
            let r = Self::runnable_in(s);
            (0..s.actors.len()).filter(|i| s.actors[*i].state != AState::Finished && !r.contains(i)).collect()
        })
    }

    /// Cancel an actor: its future is dropped the next time it would be polled (i.e. at an await point, as when
    /// a caller drops a pending future).  An actor that is inside a synchronous section first runs to its next
    /// await.
    pub fn cancel(&self, id: ActorId) {
        self.with(|s| {
            if s.actors[id].state != AState::Finished {
                s.actors[id].abort = true;
                s.actors[id].woken.woken.store(true, Ordering::SeqCst);
            }
        });
    }

    pub fn set_preempt(&self, num: u64, den: u64) {
        self.with(|s| {
            s.preempt_num = num;
            s.preempt_den = den.max(1);
        });
    }

    /// Take the first recorded actor panic, if any.
    pub fn take_panic(&self) -> Option<(ActorId, &'static str, String)> {
        self.with(|s| {
            for (i, a) in s.actors.iter_mut().enumerate() {
                if let Some(p) = a.panic.take() {
                    return Some((i, a.name, p));
                }
            }
            None
        })
    }

    /// Hand the baton to `id` and wait until it comes back.
    pub fn resume(&self, id: ActorId) {
        let mut st = self.sh.st.lock().unwrap();
        debug_assert!(st.baton == Baton::Driver);
        if st.actors[id].state == AState::Finished {
            return;
        }
        st.steps += 1;
        let (name, at) = (st.actors[id].name, st.actors[id].at);
        let mut h = st.sched_hash;
        for b in (id as u64).to_le_bytes().iter().chain(at.as_bytes()) {
            h ^= *b as u64;
            h = h.wrapping_mul(0x100000001b3);
        }
        st.sched_hash = h;
        if st.log_sched {
            st.trace.push(format!("sched {name}#{id} @{at}"));
        }
        st.actors[id].state = AState::Ready;
        st.baton = Baton::Actor(id);
        st.actors[id].cv.notify_one();
        while st.baton != Baton::Driver {
            let (g, to) = self.sh.driver_cv.wait_timeout(st, WATCHDOG).unwrap();
            st = g;
            if to.timed_out() && st.baton != Baton::Driver {
                watchdog_fail("driver waiting for baton");
            }
        }
    }

    /// Run actors (choosing among the runnable ones from the choice stream) until none is runnable or
    /// `max_steps` hand-overs were made.  Returns true if quiescent.
    pub fn settle(&self, max_steps: u64) -> bool {
        for _ in 0..max_steps {
            let r = self.runnable();
            if r.is_empty() {
                return true;
            }
            let k = if r.len() == 1 { 0 } else { self.idx(r.len()) };
            self.resume(r[k]);
        }
        self.runnable().is_empty()
    }

    /// End of run: let every actor leave its synchronous section, then drop all pending futures.
    /// Returns the choice stream, trace and counters.
    pub fn teardown(&self) {
        self.with(|s| s.teardown = true);
        // 1. run everything that is inside a synchronous section to its next await/finish
        for _ in 0..100_000 {
            let next = self.with(|s| {
                let mut ready = None;
                let mut lockw = None;
                for (i, a) in s.actors.iter().enumerate() {
                    match a.state {
                        AState::Ready if ready.is_none() => ready = Some(i),
                        AState::LockWait(_) if lockw.is_none() => lockw = Some(i),
                        _ => {}
                    }
                }
                ready.or(lockw)
            });
            match next {
                Some(i) => {
                    // a Ready actor in teardown either is aborted at the top of its loop or polls once more
                    self.with(|s| {
                        if s.actors[i].at == "spawned" || s.actors[i].at == "pending" {
                            s.actors[i].abort = true;
                        }
                    });
                    self.resume(i)
                }
                None => break,
            }
        }
        // 2. abort the pending ones (dropping a future may wake others; they are aborted too)
        for _ in 0..100_000 {
            let next = self.with(|s| s.actors.iter().position(|a| a.state != AState::Finished));
            match next {
                Some(i) => {
                    self.with(|s| s.actors[i].abort = true);
                    self.resume(i);
                }
                None => break,
            }
        }
        *self.sh.probe_fn.lock().unwrap() = None;
    }

    /// Move the choice stream, trace and counters back out.
    pub fn take_results(&self) -> (Choices, Vec<String>, BTreeMap<&'static str, u64>, BTreeMap<&'static str, u64>) {
        self.with(|s| {
            (
                std::mem::replace(&mut s.ch, Choices::replay(Vec::new())),
                std::mem::take(&mut s.trace),
                std::mem::take(&mut s.faults),
                std::mem::take(&mut s.probes),
            )
        })
    }
}
