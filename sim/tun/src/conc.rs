//! C09, the registry under concurrent callers: "authorisation is re-evaluated per packet against a registry that
//! changes concurrently".  Registrations (also superseding ones), the periodic purge and authorisation queries run as
//! concurrent tasks on the deterministic pre-emptive runtime (hook H12: scheduling points at the registry's write lock
//! and at every load/store of its state slot).  Every operation is stamped with the scheduler steps of its invocation
//! and return; the recorded history, followed by a read of every identity at every instant of interest, must be
//! linearizable with respect to the sequential reference registry.

use std::sync::{Arc, Mutex};
use std::time::{Duration, Instant};

use simcore::{RunCtx, RunResult};
use simrt::Sim;
use snap_control::server::identity_registry::IdentityRegistry;

use crate::RefRegistry;

#[derive(Clone, Debug)]
enum Op {
    Register { key: usize, id: usize, now_s: u64, life_s: u64 },
    Purge { now_s: u64 },
    Query { id: usize, now_s: u64 },
}

#[derive(Clone, Debug)]
struct Rec {
    task: usize,
    op: Op,
    inv: u64,
    ret: u64,
    /// result of a query
    res: Option<bool>,
}

fn ident(i: usize) -> [u8; 32] {
    let mut b = [0u8; 32];
    b[0] = 0xA0 + i as u8;
    b[31] = i as u8;
    b
}

const NS: u64 = 1_000_000_000;

fn apply(m: &mut RefRegistry, op: &Op) -> Option<bool> {
    match op {
        Op::Register { key, id, now_s, life_s } => {
            m.register(&format!("k{key}"), *id, (now_s + life_s) * NS);
            None
        }
        Op::Purge { now_s } => {
            m.purge(now_s * NS);
            None
        }
        Op::Query { id, now_s } => Some(m.authorised(*id, now_s * NS)),
    }
}

/// Is there an order of `recs` that respects real-time precedence (a returned before b was invoked => a first), gives
/// every query its recorded answer and ends in a state that answers `finals` as observed?
fn linearizable(start: &RefRegistry, recs: &[Rec], finals: &[(usize, u64, bool)]) -> bool {
    fn go(m: &RefRegistry, recs: &[Rec], done: &mut Vec<bool>, finals: &[(usize, u64, bool)]) -> bool {
        if done.iter().all(|d| *d) {
            return finals.iter().all(|(id, t, obs)| m.authorised(*id, t * NS) == *obs);
        }
        for i in 0..recs.len() {
            if done[i] {
                continue;
            }
            // i may come next only if no other pending operation returned before i was invoked
            if (0..recs.len()).any(|j| !done[j] && j != i && recs[j].ret < recs[i].inv) {
                continue;
            }
            let mut m2 = m.clone();
            let r = apply(&mut m2, &recs[i].op);
            if r != recs[i].res {
                continue;
            }
            done[i] = true;
            if go(&m2, recs, done, finals) {
                done[i] = false;
                return true;
            }
            done[i] = false;
        }
        false
    }
    let mut done = vec![false; recs.len()];
    go(start, recs, &mut done, finals)
}

pub fn run_conc(ctx: &mut RunCtx) -> RunResult {
    let preempt = [(1u64, 2u64), (1, 3), (2, 3)][ctx.ch.idx(3)];
    let ch = std::mem::replace(&mut ctx.ch, simcore::Choices::replay(Vec::new()));
    let trace = std::mem::take(&mut ctx.trace);
    let sim = Sim::new(ch, trace, preempt, false);
    let r = std::panic::catch_unwind(std::panic::AssertUnwindSafe(|| drive(&sim)));
    sim.teardown();
    let (ch, trace, faults, probes) = sim.take_results();
    ctx.ch = ch;
    ctx.trace = trace;
    for (k, v) in faults {
        *ctx.faults.entry(k).or_insert(0) += v;
    }
    for (k, v) in probes {
        if k.starts_with("oracle-") {
            ctx.nontrivial = true;
            ctx.oracle_evals += v;
        }
        *ctx.probes.entry(k).or_insert(0) += v;
    }
    match r {
        Ok(Ok(())) => Ok(()),
        Ok(Err((c, d))) => ctx.violate(&c, d),
        Err(p) => std::panic::resume_unwind(p),
    }
}

fn drive(sim: &Sim) -> Result<(), (String, String)> {
    let reg = Arc::new(IdentityRegistry::new());
    let base = Instant::now() + Duration::from_secs(3600);
    let at = move |s: u64| base + Duration::from_secs(s);
    let times = [0u64, 4, 6, 19, 21, 40];
    let lives = [5u64, 20];
    let (n_keys, n_ids) = (2usize, 3usize);
    let mut model = RefRegistry::default();
    // ---- a sequential prefix sets the scene (driver thread: no scheduling points)
    let n_pre = sim.idx(4);
    for _ in 0..n_pre {
        let op = Op::Register { key: sim.idx(n_keys), id: sim.idx(n_ids), now_s: 0, life_s: lives[sim.idx(2)] };
        if let Op::Register { key, id, now_s, life_s } = &op {
            reg.register(at(*now_s), format!("k{key}"), ident(*id), Duration::from_secs(*life_s));
        }
        apply(&mut model, &op);
        sim.log(format!("prefix {op:?}"));
    }
    // ---- concurrent tasks
    let n_tasks = 2 + sim.idx(2);
    let recs: Arc<Mutex<Vec<Rec>>> = Arc::new(Mutex::new(Vec::new()));
    let mut n_ops = 0;
    for t in 0..n_tasks {
        let k = 1 + sim.idx(2);
        let mut ops = Vec::new();
        for _ in 0..k {
            if n_ops >= 6 {
                break;
            }
            n_ops += 1;
            let now_s = times[sim.idx(times.len())];
            ops.push(match sim.draw(6) {
                0 | 1 | 2 => Op::Register { key: sim.idx(n_keys), id: sim.idx(n_ids), now_s, life_s: lives[sim.idx(2)] },
                3 | 4 => Op::Purge { now_s },
                _ => Op::Query { id: sim.idx(n_ids), now_s },
            });
        }
        sim.log(format!("task {t}: {ops:?}"));
        let (reg, recs, sim2) = (reg.clone(), recs.clone(), sim.clone());
        sim.spawn("registry-user", async move {
            for op in ops {
                let inv = sim2.with(|s| s.steps);
                let res = match &op {
                    Op::Register { key, id, now_s, life_s } => {
                        reg.register(at(*now_s), format!("k{key}"), ident(*id), Duration::from_secs(*life_s));
                        None
                    }
                    Op::Purge { now_s } => {
                        reg.remove_expired(at(*now_s));
                        None
                    }
                    Op::Query { id, now_s } => Some(reg.has_authorization(at(*now_s), &ident(*id))),
                };
                let ret = sim2.with(|s| s.steps);
                recs.lock().unwrap().push(Rec { task: t, op, inv, ret, res });
            }
        });
    }
    sim.fault("concurrent-registry-operations");
    for _ in 0..20_000 {
        let r = sim.runnable();
        if r.is_empty() {
            break;
        }
        let k = if r.len() == 1 { 0 } else { sim.idx(r.len()) };
        sim.resume(r[k]);
    }
    if let Some((id, name, msg)) = sim.take_panic() {
        return Err(("panic".into(), format!("actor {name}#{id}: {msg}")));
    }
    if !sim.runnable().is_empty() || !sim.blocked().is_empty() {
        return Err(("C09/registry/concurrent-operations-do-not-finish".into(), "registry operations are still running or blocked after 20000 scheduler steps".into()));
    }
    // ---- what the registry says now, about every identity at every instant of interest
    let mut finals = Vec::new();
    for id in 0..n_ids {
        for t in times {
            finals.push((id, t, reg.has_authorization(at(t), &ident(id))));
        }
    }
    let recs = recs.lock().unwrap().clone();
    let overlapping = recs.iter().any(|a| recs.iter().any(|b| a.task != b.task && a.inv < b.ret && b.inv < a.ret));
    if overlapping {
        sim.probe("registry-operations-overlapped");
    }
    sim.probe("oracle-registry-linearizable");
    if !linearizable(&model, &recs, &finals) {
        let hist: Vec<String> = recs.iter().map(|r| format!("t{}:{:?}[{}..{}]{}", r.task, r.op, r.inv, r.ret, r.res.map(|b| format!("={b}")).unwrap_or_default())).collect();
        let obs: Vec<String> = finals.iter().filter(|f| f.2).map(|(i, t, _)| format!("id{i}@{t}s")).collect();
        return Err((
            "C09/registry/not-linearizable".into(),
            format!("no sequential order of the concurrent registry operations {hist:?} explains their answers and the final state (authorised afterwards: {obs:?})"),
        ));
    }
    Ok(())
}
