//! tun-sim — C09: the SNAP tunnel carries traffic only for identities authorised at that moment.
//!
//! SUT (no hooks): real `SnapTunServer<SimAuthz>`, `SimAuthz` delegating to the real `IdentityRegistry`
//! with the *virtual* Instant; real gotatun `Tunn` instances as clients (real Noise handshakes, AEAD).
//! Simulator-owned: the datagram network (drop/dup/reorder/delay/replay), the clock used for
//! authorisation, the SCION side (a sink recording forwarded plaintexts), registration front end.

mod conc;

use std::collections::{BTreeMap, BTreeSet, VecDeque};
use std::net::SocketAddr;
use std::sync::atomic::{AtomicU64, Ordering};
use std::sync::Arc;
use std::time::{Duration, Instant};

use ana_gotatun::noise::rate_limiter::RateLimiter;
use ana_gotatun::noise::{Tunn, TunnResult};
use ana_gotatun::packet::{Packet, WgKind};
use ana_gotatun::x25519;
use simcore::{Budget, Engine, RunCtx, RunResult, Tier};
use snap_control::server::identity_registry::IdentityRegistry;
use snap_tun::server::{HandleIncomingPacketResult, SnapTunAuthorization, SnapTunServer};

type Identity = [u8; 32];

/// Authorisation seam: substitutes the virtual clock and delegates to the real registry.
struct SimAuthz {
    reg: IdentityRegistry,
    base: Instant,
    now_ns: AtomicU64,
    calls: AtomicU64,
}

impl SimAuthz {
    fn now(&self) -> Instant {
        self.base + Duration::from_nanos(self.now_ns.load(Ordering::SeqCst))
    }
}

impl SnapTunAuthorization for SimAuthz {
    type SessionData = Identity;
    fn is_authorized(&self, _real_now: Instant, identity: &Identity) -> Option<Arc<Identity>> {
        self.calls.fetch_add(1, Ordering::SeqCst);
        SnapTunAuthorization::is_authorized(&self.reg, self.now(), identity).map(|_| Arc::new(*identity))
    }
}

/// Reference registry: two maps with the stated rules, written independently of the code under test.
#[derive(Default, Clone)]
pub(crate) struct RefRegistry {
    key_to_id: BTreeMap<String, usize>,
    id_expiry: BTreeMap<usize, u64>,
}

impl RefRegistry {
    pub(crate) fn register(&mut self, key: &str, id: usize, expiry_ns: u64) {
        // one identity per key: a different identity registering under this key supersedes the old one
        if let Some(old) = self.key_to_id.get(key).copied() {
            if old != id {
                self.id_expiry.remove(&old);
            }
        }
        // one key per identity: the identity leaves every other key
        self.key_to_id.retain(|_, v| *v != id);
        self.key_to_id.insert(key.to_string(), id);
        self.id_expiry.insert(id, expiry_ns);
    }
    pub(crate) fn purge(&mut self, now_ns: u64) {
        let dead: Vec<usize> = self.id_expiry.iter().filter(|(_, e)| **e <= now_ns).map(|(i, _)| *i).collect();
        for d in dead {
            self.id_expiry.remove(&d);
            self.key_to_id.retain(|_, v| *v != d);
        }
    }
    pub(crate) fn authorised(&self, id: usize, now_ns: u64) -> bool {
        self.id_expiry.get(&id).map(|e| *e > now_ns).unwrap_or(false)
    }
}

struct Client {
    secret: x25519::StaticSecret,
    public: x25519::PublicKey,
    addr: usize,
    tunn: Option<Tunn>,
    next_seq: u64,
    sent: BTreeSet<u64>,
    forwarded: BTreeSet<u64>,
    got_out: BTreeSet<u64>,
}

struct Dgram {
    to_server: bool,
    /// the client whose Tunn produced it (client→server only; bookkeeping for probes, never shown to the SUT)
    from_client: Option<usize>,
    addr: usize,
    bytes: Vec<u8>,
    /// virtual time at which the server emitted it (server→client only)
    t_emit: u64,
    /// bit i = identity #i was authorised (per the reference) when the server emitted it
    auth_at_emit: u64,
}

const MAGIC_IN: u8 = 0xC9;
const MAGIC_OUT: u8 = 0x5E;

fn secret(n: u8) -> x25519::StaticSecret {
    let mut k = [0u8; 32];
    k[1] = n;
    k[9] = 0x77;
    x25519::StaticSecret::from(k)
}

fn addr_of(i: usize) -> SocketAddr {
    format!("192.0.2.{}:{}", 10 + i, 4000 + i).parse().unwrap()
}

struct World {
    authz: Arc<SimAuthz>,
    server: SnapTunServer<SimAuthz>,
    server_pub: x25519::PublicKey,
    refreg: RefRegistry,
    clients: Vec<Client>,
    net: Vec<Dgram>,
    old: Vec<Dgram>,
    now_ns: u64,
    naddrs: usize,
    out_seq: u64,
    /// outbound plaintexts handed to the server: seq -> (addr, t_request)
    out_sent: BTreeMap<u64, (usize, u64)>,
    expiries: BTreeSet<u64>,
}

impl World {
    fn auth_mask(&self) -> u64 {
        (0..self.clients.len()).filter(|i| self.refreg.authorised(*i, self.now_ns)).fold(0, |m, i| m | (1 << i))
    }

    fn set_now(&mut self, ns: u64) {
        self.now_ns = ns;
        self.authz.now_ns.store(ns, Ordering::SeqCst);
    }

    /// The real registry and the reference agree on every identity, now and around every stored expiry.
    fn compare_registries(&mut self, ctx: &mut RunCtx) -> RunResult {
        let mut times = vec![self.now_ns];
        for e in self.expiries.iter().rev().take(6) {
            times.extend_from_slice(&[e.saturating_sub(1), *e, e + 1]);
        }
        for t in times {
            for (i, c) in self.clients.iter().enumerate() {
                let real = self.authz.reg.has_authorization(self.authz.base + Duration::from_nanos(t), c.public.as_bytes());
                let model = self.refreg.authorised(i, t);
                ctx.oracle_evals += 1;
                if real != model {
                    return ctx.violate(
                        "C09/registry/authorisation-differs",
                        format!("identity #{i} at t={t}ns: registry says {real}, reference (one identity per key, one key per identity, expiry strictly after now) says {model}"),
                    );
                }
            }
        }
        Ok(())
    }

    fn to_server(&mut self, ctx: &mut RunCtx, addr: usize, from_client: Option<usize>, bytes: &[u8], label: &str) -> RunResult {
        let mut q = VecDeque::new();
        let t = self.now_ns;
        let r = self.server.handle_incoming_packet_with_session(Packet::copy_from(bytes), addr_of(addr), &mut q);
        let am = self.auth_mask();
        for w in q {
            let b = Packet::from(w).into_bytes().to_vec();
            self.net.push(Dgram { to_server: false, from_client: None, addr, bytes: b, t_emit: t, auth_at_emit: am });
        }
        match r {
            HandleIncomingPacketResult::Forwarded { packet, session_data, .. } => {
                ctx.checked();
                let p: &[u8] = &packet;
                if p.len() != 10 || p[0] != MAGIC_IN {
                    return ctx.violate("C09/inbound/unknown-plaintext", format!("forwarded {} bytes that no client sent", p.len()));
                }
                let i = p[1] as usize;
                let seq = u64::from_be_bytes(p[2..10].try_into().unwrap());
                ctx.log(format!("srv<-a{addr} {label}: fwd id#{i} seq={seq}"));
                if i >= self.clients.len() || !self.clients[i].sent.contains(&seq) {
                    return ctx.violate("C09/inbound/unknown-plaintext", format!("forwarded (id#{i}, seq {seq}) which was never sent"));
                }
                if !self.refreg.authorised(i, t) {
                    ctx.violate("C09/inbound/forwarded-while-unauthorised", format!("payload of identity #{i} (seq {seq}) forwarded to the SCION side at t={t}ns while that identity holds no unexpired registration"))?;
                }
                if *session_data != *self.clients[i].public.as_bytes() {
                    ctx.violate("C09/inbound/attribution", format!("payload authenticated by identity #{i} was attributed to another identity's session"))?;
                }
                if !self.clients[i].forwarded.insert(seq) {
                    ctx.violate("C09/inbound/replayed", format!("payload (id#{i}, seq {seq}) forwarded twice"))?;
                }
                ctx.probe("inbound-forwarded");
            }
            HandleIncomingPacketResult::Result { result } => {
                if let (TunnResult::Err(_), Some(i)) = (&result, from_client) {
                    if !self.refreg.authorised(i, t) && !self.clients[i].forwarded.is_empty() {
                        ctx.probe("lapse-then-blocked-in");
                    }
                }
                let s = match result {
                    TunnResult::Done => "done".to_string(),
                    TunnResult::Err(e) => format!("err({e:?})"),
                    TunnResult::WriteToNetwork(_) => "to-network".to_string(),
                    TunnResult::WriteToTunnel(_) => "to-tunnel".to_string(),
                };
                ctx.log(format!("srv<-a{addr} {label}: {s}"));
            }
        }
        Ok(())
    }

    fn to_clients(&mut self, ctx: &mut RunCtx, d: &Dgram, label: &str) -> RunResult {
        let mut any = false;
        for ci in 0..self.clients.len() {
            if self.clients[ci].addr != d.addr || self.clients[ci].tunn.is_none() {
                continue;
            }
            any = true;
            let Ok(wg) = Packet::copy_from(&d.bytes[..]).try_into_wg() else {
                ctx.log(format!("c{ci}<-srv {label}: not-wg"));
                continue;
            };
            let tunn = self.clients[ci].tunn.as_mut().unwrap();
            let r = tunn.handle_incoming_packet(wg);
            let mut back: Vec<Vec<u8>> = Vec::new();
            let mut plaintext: Option<Vec<u8>> = None;
            let desc = match r {
                TunnResult::Done => "done".to_string(),
                TunnResult::Err(e) => format!("err({e:?})"),
                TunnResult::WriteToNetwork(w) => {
                    back.push(Packet::from(w).into_bytes().to_vec());
                    "reply".to_string()
                }
                TunnResult::WriteToTunnel(p) => {
                    if p.is_empty() {
                        "keepalive".to_string()
                    } else {
                        plaintext = Some(p.to_vec());
                        "data".to_string()
                    }
                }
            };
            for w in tunn.get_queued_packets() {
                back.push(Packet::from(w).into_bytes().to_vec());
            }
            let addr = d.addr;
            for b in back {
                self.net.push(Dgram { to_server: true, from_client: Some(ci), addr, bytes: b, t_emit: 0, auth_at_emit: 0 });
            }
            ctx.log(format!("c{ci}<-srv {label}: {desc}"));
            if let Some(p) = plaintext {
                ctx.checked();
                if p.len() != 10 || p[0] != MAGIC_OUT {
                    return ctx.violate("C09/outbound/unknown-plaintext", format!("client #{ci} decrypted {} bytes the SCION side never sent", p.len()));
                }
                let a = p[1] as usize;
                let seq = u64::from_be_bytes(p[2..10].try_into().unwrap());
                match self.out_sent.get(&seq) {
                    Some((a2, _)) if *a2 == a => {}
                    _ => return ctx.violate("C09/outbound/unknown-plaintext", format!("client #{ci} decrypted (a{a}, seq {seq}) which the SCION side never sent")),
                }
                // the ciphertext left the server at d.t_emit: the identity that can read it must have been authorised then
                if d.auth_at_emit & (1 << ci) == 0 {
                    ctx.violate(
                        "C09/outbound/encrypted-while-unauthorised",
                        format!("outbound payload seq {seq} was encrypted towards identity #{ci} at t={}ns while that identity held no unexpired registration", d.t_emit),
                    )?;
                }
                if !self.clients[ci].got_out.insert(seq) {
                    ctx.violate("C09/outbound/replayed", format!("client #{ci} accepted outbound payload seq {seq} twice"))?;
                }
                ctx.probe("outbound-decrypted");
            }
        }
        if !any {
            ctx.log(format!("a{}<-srv {label}: nobody-home", d.addr));
        }
        Ok(())
    }
}

const LIFETIMES_NS: [u64; 6] = [1, 1_000_000_000, 10_000_000_000, 30_000_000_000, 3_600_000_000_000, 1_000_000];

fn run_c09(ctx: &mut RunCtx) -> RunResult {
    // swarm configuration
    let small = ctx.ch.draw(4) != 3;
    let (nid, nkeys, naddrs) = if small { (3usize, 2usize, 2usize) } else { (2 + ctx.ch.draw(3) as usize, 1 + ctx.ch.draw(3) as usize, 1 + ctx.ch.draw(3) as usize) };
    let lossy = ctx.ch.draw(4) != 0;
    let nops = 12 + ctx.ch.draw(70);
    ctx.log(format!("cfg ids={nid} keys={nkeys} addrs={naddrs} lossy={lossy} ops={nops}"));

    let ssec = secret(200);
    let spub = x25519::PublicKey::from(&ssec);
    let authz = Arc::new(SimAuthz { reg: IdentityRegistry::new(), base: Instant::now() + Duration::from_secs(3600), now_ns: AtomicU64::new(0), calls: AtomicU64::new(0) });
    let server = SnapTunServer::new(ssec, Arc::new(RateLimiter::new(&spub, u64::MAX / 4)), authz.clone());
    let mut w = World {
        authz,
        server,
        server_pub: spub,
        refreg: RefRegistry::default(),
        clients: Vec::new(),
        net: Vec::new(),
        old: Vec::new(),
        now_ns: 0,
        naddrs,
        out_seq: 0,
        out_sent: BTreeMap::new(),
        expiries: BTreeSet::new(),
    };
    for i in 0..nid {
        let s = secret(i as u8 + 1);
        let p = x25519::PublicKey::from(&s);
        // clients are spread over the addresses; with fewer addresses than identities some share one (NAT)
        w.clients.push(Client { secret: s, public: p, addr: i % naddrs, tunn: None, next_seq: 0, sent: BTreeSet::new(), forwarded: BTreeSet::new(), got_out: BTreeSet::new() });
    }
    w.set_now(1_000_000_000);

    // warm start (3 runs in 4): some identities register and connect before the chaos begins
    let warm = ctx.ch.draw(4) != 0;
    let mut script: Vec<u64> = Vec::new();
    if warm {
        for i in 0..nid {
            if ctx.ch.draw(4) != 0 {
                script.push(100 + i as u64); // register id i
                script.push(200 + i as u64); // connect id i
                script.extend_from_slice(&[300, 300, 300, 300]); // deliver FIFO
            }
        }
    }
    script.reverse();
    let mut steps = 0u64;
    loop {
        steps += 1;
        let scripted = script.pop();
        if scripted.is_none() && steps > nops + 64 {
            break;
        }
        if scripted.is_none() && ctx.ch.draw(nops) == 0 && steps > 8 {
            break;
        }
        let op = match scripted {
            Some(x) if x >= 300 => 15,
            Some(x) if x >= 200 => 5,
            Some(x) if x >= 100 => 0,
            _ => ctx.ch.draw(20),
        };
        let forced_id = scripted.filter(|x| *x < 300).map(|x| (x % 100) as usize);
        match op {
            0 | 1 | 16 => {
                let k = ctx.ch.idx(nkeys);
                let i = forced_id.unwrap_or_else(|| ctx.ch.idx(nid));
                let life = LIFETIMES_NS[ctx.ch.idx(LIFETIMES_NS.len())];
                let now = w.authz.now();
                let id = *w.clients[i].public.as_bytes();
                w.authz.reg.register(now, format!("key{k}"), id, Duration::from_nanos(life));
                w.refreg.register(&format!("key{k}"), i, w.now_ns + life);
                w.expiries.insert(w.now_ns + life);
                ctx.log(format!("reg key{k} id#{i} life={life}ns"));
                ctx.probe("register");
                w.compare_registries(ctx)?;
            }
            2 | 3 => {
                // clock advance, boundary-directed around stored expiries
                let future: Vec<u64> = w.expiries.iter().copied().filter(|e| *e + 1 > w.now_ns).collect();
                let target = if !future.is_empty() && ctx.ch.chance(3, 4) {
                    let e = future[ctx.ch.idx(future.len().min(3))];
                    match ctx.ch.draw(3) {
                        0 => e.saturating_sub(1),
                        1 => e,
                        _ => e + 1,
                    }
                } else {
                    w.now_ns + [1_000_000u64, 1_000_000_000, 10_000_000_000, 60_000_000_000][ctx.ch.idx(4)]
                };
                if target > w.now_ns {
                    ctx.sim_ms += (target - w.now_ns) / 1_000_000;
                    w.set_now(target);
                    ctx.fault("clock-advance");
                    if w.expiries.contains(&target) {
                        ctx.probe("clock-exactly-on-expiry");
                    }
                }
                ctx.log(format!("clock t={}ns", w.now_ns));
                w.compare_registries(ctx)?;
            }
            4 => {
                let now = w.authz.now();
                w.authz.reg.remove_expired(now);
                w.refreg.purge(w.now_ns);
                ctx.log("purge".into());
                ctx.probe("purge");
                w.compare_registries(ctx)?;
            }
            5 | 6 => {
                // (re)connect: fresh Tunn, handshake init
                let i = forced_id.unwrap_or_else(|| ctx.ch.idx(nid));
                if ctx.ch.chance(1, 4) {
                    let a = ctx.ch.idx(w.naddrs);
                    if w.clients[i].tunn.is_none() {
                        w.clients[i].addr = a; // a client may only move before it first connects (attribution by address)
                    }
                }
                let c = &mut w.clients[i];
                let rl = Arc::new(RateLimiter::new(&c.public, u64::MAX / 4));
                let mut t = Tunn::new(c.secret.clone(), w.server_pub, None, None, (i as u32 + 1) * 100, rl, "203.0.113.1:443".parse().unwrap());
                // trigger the handshake with a first payload
                let seq = c.next_seq;
                c.next_seq += 1;
                c.sent.insert(seq);
                let mut pl = vec![MAGIC_IN, i as u8];
                pl.extend_from_slice(&seq.to_be_bytes());
                let out = t.handle_outgoing_packet(Packet::copy_from(&pl[..]));
                c.tunn = Some(t);
                let a = c.addr;
                ctx.log(format!("connect id#{i} at a{a} (first payload seq={seq})"));
                if let Some(wg) = out {
                    w.net.push(Dgram { to_server: true, from_client: Some(i), addr: a, bytes: Packet::from(wg).into_bytes().to_vec(), t_emit: 0, auth_at_emit: 0 });
                }
            }
            7 | 8 | 9 | 17 => {
                // client data
                let i = ctx.ch.idx(nid);
                let c = &mut w.clients[i];
                if let Some(t) = c.tunn.as_mut() {
                    let seq = c.next_seq;
                    c.next_seq += 1;
                    c.sent.insert(seq);
                    let mut pl = vec![MAGIC_IN, i as u8];
                    pl.extend_from_slice(&seq.to_be_bytes());
                    let out = t.handle_outgoing_packet(Packet::copy_from(&pl[..]));
                    let a = c.addr;
                    ctx.log(format!("c{i} data seq={seq} -> {}", if out.is_some() { "dgram" } else { "queued" }));
                    if let Some(wg) = out {
                        w.net.push(Dgram { to_server: true, from_client: Some(i), addr: a, bytes: Packet::from(wg).into_bytes().to_vec(), t_emit: 0, auth_at_emit: 0 });
                    }
                }
            }
            10 | 11 | 18 => {
                // SCION side sends a payload towards a client address
                let a = ctx.ch.idx(w.naddrs);
                w.out_seq += 1;
                let seq = w.out_seq;
                let mut pl = vec![MAGIC_OUT, a as u8];
                pl.extend_from_slice(&seq.to_be_bytes());
                w.out_sent.insert(seq, (a, w.now_ns));
                let r = w.server.handle_outgoing_packet_with_session(Packet::copy_from(&pl[..]), addr_of(a));
                if r.is_none() {
                    let now = w.now_ns;
                    if (0..nid).any(|i| w.clients[i].addr == a && !w.clients[i].forwarded.is_empty() && !w.refreg.authorised(i, now)) {
                        ctx.probe("lapse-then-blocked-out");
                    }
                }
                let desc = match r {
                    None => "none".to_string(),
                    Some(o) => match o.network_packet {
                        None => "some(queued)".to_string(),
                        Some(wg) => {
                            let kind = match &wg {
                                WgKind::Data(_) => "data",
                                WgKind::HandshakeInit(_) => "hs-init",
                                _ => "other",
                            };
                            w.net.push(Dgram { to_server: false, from_client: None, addr: a, bytes: Packet::from(wg).into_bytes().to_vec(), t_emit: w.now_ns, auth_at_emit: w.auth_mask() });
                            format!("some({kind})")
                        }
                    },
                };
                ctx.log(format!("srv out a{a} seq={seq} -> {desc}"));
            }
            12 => {
                let ka = w.server.update_timers();
                ctx.log(format!("timers -> {} dgrams", ka.len()));
                for (sa, wg) in ka {
                    if let Some(a) = (0..w.naddrs).find(|a| addr_of(*a) == sa) {
                        w.net.push(Dgram { to_server: false, from_client: None, addr: a, bytes: Packet::from(wg).into_bytes().to_vec(), t_emit: w.now_ns, auth_at_emit: w.auth_mask() });
                    }
                }
            }
            13 if lossy && !w.old.is_empty() => {
                // an on-path attacker replays an old datagram, possibly towards/from another address
                ctx.fault("replay");
                let k = ctx.ch.idx(w.old.len());
                let (to_server, mut addr, bytes, t_emit, fc, am) = (w.old[k].to_server, w.old[k].addr, w.old[k].bytes.clone(), w.old[k].t_emit, w.old[k].from_client, w.old[k].auth_at_emit);
                if ctx.ch.chance(1, 3) {
                    addr = ctx.ch.idx(w.naddrs);
                    ctx.fault("misdeliver");
                }
                if to_server {
                    w.to_server(ctx, addr, fc, &bytes, "replay")?;
                } else {
                    let d = Dgram { to_server, from_client: None, addr, bytes, t_emit, auth_at_emit: am };
                    w.to_clients(ctx, &d, "replay")?;
                }
            }
            _ => {
                if w.net.is_empty() {
                    continue;
                }
                let idx = if lossy && scripted.is_none() && ctx.ch.chance(1, 3) {
                    let i = ctx.ch.idx(w.net.len());
                    if i != 0 {
                        ctx.fault("reorder");
                    }
                    i
                } else {
                    0
                };
                let fate = if lossy && scripted.is_none() { ctx.ch.draw(12) } else { 0 };
                if fate == 11 {
                    ctx.fault("drop");
                    let d = w.net.remove(idx);
                    ctx.log(format!("net drop {} a{}", if d.to_server { "c->s" } else { "s->c" }, d.addr));
                    continue;
                }
                let d = if fate == 10 {
                    ctx.fault("dup");
                    let d = &w.net[idx];
                    Dgram { to_server: d.to_server, from_client: d.from_client, addr: d.addr, bytes: d.bytes.clone(), t_emit: d.t_emit, auth_at_emit: d.auth_at_emit }
                } else {
                    w.net.remove(idx)
                };
                if w.old.len() < 32 {
                    w.old.push(Dgram { to_server: d.to_server, from_client: d.from_client, addr: d.addr, bytes: d.bytes.clone(), t_emit: d.t_emit, auth_at_emit: d.auth_at_emit });
                }
                if d.to_server {
                    let (a, b) = (d.addr, d.bytes.clone());
                    w.to_server(ctx, a, d.from_client, &b, "net")?;
                } else {
                    w.to_clients(ctx, &d, "net")?;
                }
            }
        }
    }
    if w.authz.calls.load(Ordering::SeqCst) > 0 {
        ctx.probe("authz-consulted");
    }
    Ok(())
}

struct TunEngine;

impl Engine for TunEngine {
    fn name(&self) -> &'static str {
        "verif-tun"
    }
    fn properties(&self) -> &'static [&'static str] {
        &["C09"]
    }
    fn run(&self, _prop: &str, ctx: &mut RunCtx) -> RunResult {
        // a fifth of the runs: the registry under concurrent callers (conc.rs)
        if ctx.ch.chance(1, 5) {
            return conc::run_conc(ctx);
        }
        run_c09(ctx)
    }
    fn budget(&self, _prop: &str, tier: Tier) -> Budget {
        match tier {
            Tier::Quick => Budget { runs: 40_000, wall_cap_s: 240 },
            Tier::Thorough => Budget { runs: 3_000_000, wall_cap_s: 1500 },
        }
    }
    fn rule(&self, _prop: &str) -> String {
        "one run = one seeded history of {register(key,identity,lifetime), boundary-directed clock advance, purge, connect(identity,address), client data, \
         SCION-side data out, timer tick, deliver/drop/duplicate/reorder/replay/misdeliver of in-flight datagrams} against the real SnapTunServer + IdentityRegistry \
         with real WireGuard clients; default small configuration 3 identities x 2 keys x 2 addresses, larger ones by swarm. Non-trivial iff at least one payload \
         was forwarded to the SCION side or decrypted by a client and judged; distinct = distinct FNV hash of the abstract event trace"
            .into()
    }
    fn real_components(&self, _prop: &str) -> Vec<&'static str> {
        vec!["snap_tun::server::SnapTunServer", "snap_control::server::identity_registry::IdentityRegistry", "ana-gotatun Tunn (server-side and client-side: Noise IK handshake, AEAD, anti-replay)", "ana-gotatun RateLimiter (limit unreachable)", "a fifth of the runs: IdentityRegistry alone under concurrent register / remove_expired / has_authorization tasks (hook H12: scheduling points at its write lock and state slot), linearizability against the reference registry"]
    }
    fn stub_components(&self, _prop: &str) -> Vec<&'static str> {
        vec!["datagram network between client addresses and the server", "clock used for authorisation (SimAuthz substitutes the virtual Instant)", "SCION side (sink recording forwarded plaintexts)", "control-plane front end (register is called on the registry directly; token verification is C10's subject)"]
    }
    fn assumptions(&self, _prop: &str) -> Vec<&'static str> {
        vec![
            "SnapTunServer reads Instant::now() itself; the authorisation seam ignores that value and substitutes the virtual clock, so only the registry sees simulated time",
            "gotatun's own timers read the real clock; runs take milliseconds so rekey/expiry/keepalive timers never fire; update_timers() results are opaque",
            "WireGuard ephemeral keys come from the OS RNG; traces carry abstract outcomes only",
            "the gateway's socket loop (TunnelGateway::start_server) is not simulated",
            "exploration: a clean batch is evidence, not proof",
        ]
    }
    fn required_reach(&self, _prop: &str) -> Vec<&'static str> {
        vec!["inbound-forwarded", "outbound-decrypted", "clock-exactly-on-expiry", "drop", "dup", "reorder", "replay", "misdeliver", "purge", "register", "lapse-then-blocked-in", "lapse-then-blocked-out", "oracle-registry-linearizable", "registry-operations-overlapped"]
    }
}

fn main() {
    simcore::runner::main_for(&TunEngine)
}
