//! C14, SNAP gateway side: the SCMP errors the tunnel gateway builds for datagrams it refuses (hook H11).
//!
//! A hostile tunnel peer sends a drawn sequence of datagrams: well-formed packets, packets with a spoofed or non-IP
//! source, unsupported path types, truncated packets, garbage, flipped bits, SCMP errors and malformed SCMP with a bad
//! source, sizes up to the gateway's buffer size.  All of them go through one gateway packet pool, so the buffer an
//! answer is encoded into is one that an earlier datagram (or answer) has used - the "reused buffer" fault arises by
//! itself.  Judged: every answer the gateway builds is an SCMP parameter problem of at most 1232 bytes with a valid
//! checksum whose quote is a non-empty prefix of the refused datagram; an SCMP error or a malformed SCMP packet is never
//! answered.

use std::net::{IpAddr, Ipv4Addr};

use sciparse::address::ip_addr::ScionIpAddr;
use sciparse::core::encode::WireEncode;
use sciparse::core::model::Model;
use sciparse::dataplane_path::view::ScionDpPathViewExt;
use sciparse::core::view::View;
use sciparse::dataplane_path::model::DpPath;
use sciparse::dataplane_path::onehop::model::OneHopPath;
use sciparse::identifier::{asn::Asn, isd::Isd, isd_asn::IsdAsn};
use sciparse::packet::model::{ScionRawPacket, ScionScmpPacket};
use sciparse::payload::scmp::model::{ScmpDestinationUnreachable, ScmpEchoRequest, ScmpErrorMessage, ScmpMessage};
use sciparse::payload::scmp::types::ScmpDestinationUnreachableCode;
use sciparse::payload::ProtocolNumber;
use sciparse::util::test_builder::TestPathBuilder;
use simcore::{RunCtx, RunResult};
use snap_dataplane::tunnel_gateway::gateway::verif::{Gateway, Inbound};

use crate::refrouter;

fn ia(i: u16, a: u64) -> IsdAsn {
    IsdAsn::new(Isd(i), Asn(a))
}

fn addr(ia: IsdAsn, ip: IpAddr) -> sciparse::address::addr::ScionAddr {
    ScionIpAddr::new(ia, ip).into()
}

pub fn run_gateway(ctx: &mut RunCtx) -> RunResult {
    let peer_ip = IpAddr::V4(Ipv4Addr::new(10, 1, 0, 1 + ctx.ch.draw(200) as u8));
    let local_ip = IpAddr::V4(Ipv4Addr::new(192, 0, 2, 1));
    let pool_cap = [1usize, 2, 4, 64][ctx.ch.idx(4)];
    let gw = Gateway::new(pool_cap);
    let max = Gateway::buffer_size();
    ctx.log(format!("gateway scenario: peer {peer_ip}, pool of {pool_cap} buffers of {max} bytes"));
    let (src_ia, dst_ia) = (ia(1, 0x110), ia(2, 0x220));
    let std_path = || -> DpPath {
        let c = TestPathBuilder::new(addr(src_ia, peer_ip), addr(dst_ia, IpAddr::V4(Ipv4Addr::new(10, 2, 0, 9)))).using_info_timestamp(1_700_000_000).up().add_hop(0, 1).add_hop(2, 3).add_hop(4, 0).build(1_700_000_001);
        c.path().dp_path().to_model()
    };
    let n = 2 + ctx.ch.idx(9);
    for k in 0..n {
        // ---- a base packet
        let sizes = [0usize, 1, 7, 200, 1100, 1160, 1180, 1200, 1232, 1400, 4000, 9000];
        let size = sizes[ctx.ch.idx(sizes.len())];
        let payload: Vec<u8> = (0..size).map(|i| (i as u8).wrapping_mul(29).wrapping_add(k as u8)).collect();
        let spoofed = IpAddr::V4(Ipv4Addr::new(10, 9, 9, 9));
        let kind = ctx.ch.draw(12);
        let mut is_scmp_error = false;
        let mut malformed_scmp = false;
        let enc_raw = |p: ScionRawPacket| p.try_encode_to_owned_view().ok().map(|v| v.as_slice().to_vec());
        let (what, bytes): (&str, Option<Vec<u8>>) = match kind {
            0 => ("well-formed, standard path", enc_raw(ScionRawPacket::new(addr(src_ia, peer_ip), addr(dst_ia, local_ip), std_path(), ProtocolNumber::Other(253), payload.clone()))),
            1 => ("well-formed, empty path", enc_raw(ScionRawPacket::new(addr(src_ia, peer_ip), addr(src_ia, local_ip), DpPath::Empty, ProtocolNumber::Other(253), payload.clone()))),
            2 | 3 => ("spoofed source address", enc_raw(ScionRawPacket::new(addr(src_ia, spoofed), addr(dst_ia, local_ip), std_path(), ProtocolNumber::Other(253), payload.clone()))),
            4 => {
                let p = OneHopPath::new(1, 7, 1_700_000_000, [7u8; 16], 63);
                ("one-hop path (unsupported)", enc_raw(ScionRawPacket::new(addr(src_ia, peer_ip), addr(dst_ia, local_ip), DpPath::OneHop(p), ProtocolNumber::Other(253), payload.clone())))
            }
            5 => {
                // a path type the gateway does not know: the type byte of a well-formed packet is overwritten
                let b = enc_raw(ScionRawPacket::new(addr(src_ia, peer_ip), addr(dst_ia, local_ip), std_path(), ProtocolNumber::Other(253), payload.clone()));
                ("unknown path type", b.map(|mut b| {
                    b[8] = [3u8, 4, 77, 255][ctx.ch.idx(4)];
                    b
                }))
            }
            6 => {
                // source host address of a non-IP type (service address)
                let b = enc_raw(ScionRawPacket::new(addr(src_ia, peer_ip), addr(dst_ia, local_ip), std_path(), ProtocolNumber::Other(253), payload.clone()));
                ("non-IP source host type", b.map(|mut b| {
                    b[9] = (b[9] & 0xf0) | 0x04; // ST=1 (service), SL=0
                    b
                }))
            }
            7 => {
                let len = [0usize, 1, 11, 12, 27, 28, 36, 60, 300, 2000][ctx.ch.idx(10)];
                ("garbage", Some((0..len).map(|i| ((i * 131 + k * 17) % 251) as u8).collect()))
            }
            8 => {
                let b = enc_raw(ScionRawPacket::new(addr(src_ia, peer_ip), addr(dst_ia, local_ip), std_path(), ProtocolNumber::Other(253), payload.clone()));
                ("truncated packet", b.map(|b| {
                    let cut = ctx.ch.idx(b.len().max(1));
                    b[..cut].to_vec()
                }))
            }
            9 => {
                is_scmp_error = true;
                let e: ScmpErrorMessage = ScmpDestinationUnreachable::new(ScmpDestinationUnreachableCode::AddressUnreachable, payload.iter().take(size.min(600)).copied().collect()).into();
                let m: ScmpMessage = e.into();
                ("SCMP error with a spoofed source", ScionScmpPacket::new(addr(src_ia, spoofed), addr(dst_ia, local_ip), std_path(), m).try_encode_to_vec().ok())
            }
            10 => {
                malformed_scmp = true;
                let junk: Vec<u8> = payload.iter().take([0usize, 1, 3, 5][ctx.ch.idx(4)]).copied().collect();
                ("malformed SCMP with a spoofed source", enc_raw(ScionRawPacket::new(addr(src_ia, spoofed), addr(dst_ia, local_ip), std_path(), ProtocolNumber::Scmp, junk)))
            }
            _ => {
                let m: ScmpMessage = ScmpEchoRequest::new(ctx.ch.draw(65536) as u16, 1, payload.iter().take(size.min(900)).copied().collect()).into();
                ("echo request with a spoofed source", ScionScmpPacket::new(addr(src_ia, spoofed), addr(dst_ia, local_ip), std_path(), m).try_encode_to_vec().ok())
            }
        };
        let Some(mut bytes) = bytes else { continue };
        if bytes.len() > max {
            bytes.truncate(max);
        }
        // a flipped bit somewhere in the first 64 bytes (sometimes)
        let mut flipped = false;
        if ctx.ch.chance(1, 6) && !bytes.is_empty() {
            let at = ctx.ch.idx(bytes.len().min(64));
            bytes[at] ^= 1 << ctx.ch.draw(8);
            ctx.fault("bit-flip");
            flipped = true;
        }
        ctx.fault("gateway-datagram");
        let verdict = gw.inbound(&bytes, peer_ip, local_ip);
        ctx.checked();
        ctx.nontrivial = true;
        match verdict {
            Inbound::Dispatch => {
                ctx.log(format!("datagram {k} ({what}, {} B): dispatched", bytes.len()));
                ctx.probe("gateway-dispatched");
            }
            Inbound::NoAnswer(e) => {
                ctx.log(format!("datagram {k} ({what}, {} B): refused, no answer ({e})", bytes.len()));
                ctx.probe("gateway-refused-without-answer");
            }
            Inbound::Answer(a) => {
                ctx.log(format!("datagram {k} ({what}, {} B): refused, answer of {} B", bytes.len(), a.len()));
                ctx.probe("gateway-answered");
                ctx.fault("reused-buffer");
                let Some(h) = refrouter::parse_hdr(&a) else {
                    return ctx.violate("C14/gateway/answer-unparsable", format!("{what}: the gateway's answer of {} bytes does not parse as a SCION packet", a.len()));
                };
                if a[4] != 202 || a.len() < h.hdr_len + 8 {
                    return ctx.violate("C14/gateway/answer-not-scmp", format!("{what}: next header {} / {} bytes after the header", a[4], a.len().saturating_sub(h.hdr_len)));
                }
                let msg = &a[h.hdr_len..];
                if msg[0] >= 128 {
                    return ctx.violate("C14/gateway/answer-not-an-error", format!("{what}: SCMP type {}", msg[0]));
                }
                if a.len() > 1232 {
                    return ctx.violate("C14/error-packet-too-long", format!("{what}: the gateway's SCMP error packet has {} bytes (refused datagram {} bytes)", a.len(), bytes.len()));
                }
                if bytes.len() > 1300 {
                    ctx.probe("quote-truncated");
                }
                match crate::c14::scmp_checksum_ok_pub(&a) {
                    Some(true) => {}
                    _ => return ctx.violate("C14/bad-checksum/reused-buffer", format!("{what}: the gateway's SCMP error (datagram {k} of this peer, pool of {pool_cap}) has an invalid checksum")),
                }
                let quote = &msg[8..];
                if quote.len() > bytes.len() || quote != &bytes[..quote.len()] {
                    return ctx.violate("C14/quote-not-a-prefix", format!("{what}: the quote ({} B) in the gateway's SCMP error is not a prefix of the refused datagram ({} B)", quote.len(), bytes.len()));
                }
                if quote.is_empty() && !bytes.is_empty() {
                    return ctx.violate("C14/quote-not-a-prefix", format!("{what}: nothing of the refused datagram ({} B) is quoted", bytes.len()));
                }
                ctx.probe("quote-checked");
                // was the refused datagram itself an SCMP error / a malformed SCMP packet (as sent, before any bit flip
                // that may have turned it into something else: judged on the bytes the gateway saw)
                let saw_scmp = refrouter::parse_hdr(&bytes).map(|hh| bytes[4] == 202 && hh.hdr_len <= bytes.len()).unwrap_or(false);
                let saw_error = saw_scmp && refrouter::parse_hdr(&bytes).map(|hh| bytes.len() >= hh.hdr_len + 4 && bytes[hh.hdr_len] < 128).unwrap_or(false);
                let saw_malformed = saw_scmp && refrouter::parse_hdr(&bytes).map(|hh| bytes.len() < hh.hdr_len + 4).unwrap_or(false);
                // (only for datagrams exactly as generated: a flipped bit may have turned the packet into something that
                // is no SCION packet at all, and "malformed packet" is not "malformed SCMP packet")
                if !flipped && ((is_scmp_error && saw_error) || (malformed_scmp && saw_malformed)) {
                    return ctx.violate(
                        "C14/reply-to-error-or-malformed",
                        format!("the gateway answered a refused {what} ({} B) with an SCMP error of type {} code {}", bytes.len(), msg[0], msg[1]),
                    );
                }
            }
        }
    }
    Ok(())
}
