//! Drawn SCION topologies: the simulator's own mirror (used by the reference router and the reachability
//! check) and the real pocketscion `ScionTopology` built from the same description.

use std::collections::{BTreeMap, BTreeSet};
use std::sync::Mutex;

use pocketscion::network::scion::topology::{ScionAs, ScionLink, ScionLinkType, ScionTopology, ScionTopologyBuilder};
use pocketscion::network::scion::trust_store::TrustStore;
use sciparse::identifier::{asn::Asn, isd::Isd, isd_asn::IsdAsn};
use simcore::RunCtx;

/// Link type as seen from the AS owning the interface: the *neighbour* is my core peer / parent / child / peer.
#[derive(Clone, Copy, Debug, PartialEq, Eq)]
pub enum LinkT {
    Core,
    Parent,
    Child,
    Peer,
}

#[derive(Clone, Debug)]
pub struct MIf {
    pub nbr: usize,
    pub nbr_if: u16,
    pub lt: LinkT,
    pub up: bool,
}

#[derive(Clone, Debug)]
pub struct MAs {
    pub ia: u64,
    pub isd: u16,
    pub core: bool,
    pub key: [u8; 16],
    pub ifs: BTreeMap<u16, MIf>,
}

#[derive(Clone, Debug, Default)]
pub struct Mirror {
    pub ases: Vec<MAs>,
}

impl Mirror {
    pub fn idx_of(&self, ia: u64) -> Option<usize> {
        self.ases.iter().position(|a| a.ia == ia)
    }
    pub fn isd_asn(&self, i: usize) -> IsdAsn {
        IsdAsn::from_u64(self.ases[i].ia)
    }
    pub fn name(&self, i: usize) -> String {
        format!("{}", self.isd_asn(i))
    }
    pub fn set_up(&mut self, a: usize, ifid: u16, up: bool) {
        if let Some(f) = self.ases[a].ifs.get(&ifid).cloned() {
            self.ases[a].ifs.get_mut(&ifid).unwrap().up = up;
            if let Some(g) = self.ases[f.nbr].ifs.get_mut(&f.nbr_if) {
                g.up = up;
            }
        }
    }

    /// Independent valley-free reachability: child→parent links up to a core of the source ISD (or the source is a
    /// core), core links between cores without revisiting an AS, parent→child links down to the destination.
    /// Only links that are up count.  Shares nothing with the registry, the lister plan or the combinator.
    pub fn reachable(&self, src: usize, dst: usize) -> bool {
        if src == dst {
            return true;
        }
        let ups = |from: usize| -> BTreeSet<usize> {
            // all ASes reachable by following parent links upwards (including `from`)
            let mut seen = BTreeSet::new();
            let mut stack = vec![from];
            while let Some(a) = stack.pop() {
                if !seen.insert(a) {
                    continue;
                }
                for f in self.ases[a].ifs.values() {
                    if f.lt == LinkT::Parent && f.up {
                        stack.push(f.nbr);
                    }
                }
            }
            seen
        };
        let up_src = ups(src);
        let up_dst = ups(dst);
        // common ancestor-or-self on both sides only helps via cores (or shortcuts, which the SDK offers in
        // addition): the conservative completeness demand uses cores only
        let cores_src: Vec<usize> = up_src.iter().copied().filter(|a| self.ases[*a].core).collect();
        let cores_dst: BTreeSet<usize> = up_dst.iter().copied().filter(|a| self.ases[*a].core).collect();
        // core-to-core reachability over core links
        let mut seen = BTreeSet::new();
        let mut stack = cores_src.clone();
        while let Some(a) = stack.pop() {
            if !seen.insert(a) {
                continue;
            }
            if cores_dst.contains(&a) {
                return true;
            }
            for f in self.ases[a].ifs.values() {
                if f.lt == LinkT::Core && f.up && self.ases[f.nbr].core {
                    stack.push(f.nbr);
                }
            }
        }
        false
    }
}

pub struct World {
    pub m: Mirror,
    pub real: ScionTopology,
    pub desc: Vec<String>,
}

static MASTER: Mutex<Option<TrustStore>> = Mutex::new(None);

fn trust_store_for(ases: &[(IsdAsn, bool)]) -> TrustStore {
    let mut g = MASTER.lock().unwrap();
    let master = g.get_or_insert_with(TrustStore::new);
    for (ia, _) in ases {
        let _ = master.get_or_issue_as_key_pair(*ia);
    }
    let mut ts = master.clone();
    drop(g);
    let isds: BTreeSet<Isd> = ases.iter().map(|(ia, _)| ia.isd()).collect();
    for isd in isds {
        let cores: Vec<IsdAsn> = ases.iter().filter(|(ia, c)| ia.isd() == isd && *c).map(|(ia, _)| *ia).collect();
        ts.set_isd_trc(isd, &cores).expect("trc");
    }
    ts
}

fn ia(isd: u16, asn: u64) -> IsdAsn {
    IsdAsn::new(Isd(isd), Asn(asn))
}

/// Draw a valid topology: every non-core AS has a parent chain to a core of its ISD; ISDs are connected by core links.
pub fn draw(ctx: &mut RunCtx) -> World {
    let n_isd = match ctx.ch.draw(8) {
        0..=2 => 1,
        3..=6 => 2,
        _ => 3,
    };
    let shared_numbering = ctx.ch.chance(1, 3); // every AS numbers its interfaces 1,2,3,…: ids collide across ASes
    let mut m = Mirror::default();
    let mut desc = Vec::new();
    let mut next_if: Vec<u16> = Vec::new();
    let mut used_if: Vec<BTreeSet<u16>> = Vec::new();
    let mut by_isd: Vec<(Vec<usize>, Vec<usize>)> = Vec::new(); // (cores, non-cores)
    for i in 1..=n_isd as u16 {
        let n_core = 1 + ctx.ch.draw(3) as usize;
        let n_non = ctx.ch.draw(5) as usize;
        let mut cores = Vec::new();
        let mut nons = Vec::new();
        for k in 0..n_core + n_non {
            let core = k < n_core;
            let asn = ((i as u64) << 8) | if core { k as u64 } else { 8 + (k - n_core) as u64 };
            let mut key = [0u8; 16];
            for b in key.iter_mut() {
                *b = ctx.ch.draw(256) as u8;
            }
            let idx = m.ases.len();
            m.ases.push(MAs { ia: ia(i, asn).to_u64(), isd: i, core, key, ifs: BTreeMap::new() });
            next_if.push(1);
            used_if.push(BTreeSet::new());
            if core {
                cores.push(idx)
            } else {
                nons.push(idx)
            }
        }
        by_isd.push((cores, nons));
    }
    let mut new_if = |ctx: &mut RunCtx, a: usize| -> u16 {
        if shared_numbering {
            let v = next_if[a];
            next_if[a] += 1;
            v
        } else {
            let mut v = match ctx.ch.draw(10) {
                0 => 1 + ctx.ch.draw(65534) as u16,
                _ => 1 + ctx.ch.draw(24) as u16,
            };
            // next free id (never loops on the choice stream: a replayed or shrunk stream may be exhausted)
            while !used_if[a].insert(v) {
                v = if v == u16::MAX { 1 } else { v + 1 };
            }
            v
        }
    };
    let mut links: Vec<(usize, u16, LinkT, usize, u16)> = Vec::new(); // (a, a_if, type as seen from a, b, b_if)
    let mut add = |ctx: &mut RunCtx, a: usize, lt: LinkT, b: usize, links: &mut Vec<(usize, u16, LinkT, usize, u16)>| {
        let ai = new_if(ctx, a);
        let bi = new_if(ctx, b);
        links.push((a, ai, lt, b, bi));
    };
    for (cores, nons) in &by_isd {
        // core chain + extras
        for w in cores.windows(2) {
            add(ctx, w[0], LinkT::Core, w[1], &mut links);
        }
        if cores.len() >= 2 && ctx.ch.chance(1, 2) {
            let a = cores[ctx.ch.idx(cores.len())];
            let b = cores[ctx.ch.idx(cores.len())];
            if a != b {
                add(ctx, a, LinkT::Core, b, &mut links);
            }
        }
        // non-cores: 1–2 parents among cores and earlier non-cores
        for (k, n) in nons.iter().enumerate() {
            let mut cands: Vec<usize> = cores.clone();
            cands.extend(nons[..k].iter().copied());
            let n_par = 1 + ctx.ch.draw(2) as usize;
            let mut chosen: Vec<usize> = Vec::new();
            for _ in 0..n_par {
                let p = cands[ctx.ch.idx(cands.len())];
                let parallel = chosen.contains(&p);
                if parallel && !ctx.ch.chance(1, 3) {
                    continue;
                }
                chosen.push(p);
                // `n` sees `p` as its parent
                add(ctx, *n, LinkT::Parent, p, &mut links);
            }
        }
    }
    // inter-ISD core links
    for w in 0..by_isd.len().saturating_sub(1) {
        let a = by_isd[w].0[ctx.ch.idx(by_isd[w].0.len())];
        let b = by_isd[w + 1].0[ctx.ch.idx(by_isd[w + 1].0.len())];
        add(ctx, a, LinkT::Core, b, &mut links);
        if ctx.ch.chance(1, 3) {
            let a = by_isd[w].0[ctx.ch.idx(by_isd[w].0.len())];
            let b = by_isd[w + 1].0[ctx.ch.idx(by_isd[w + 1].0.len())];
            add(ctx, a, LinkT::Core, b, &mut links);
        }
    }
    // peering links between non-core ASes
    let all_non: Vec<usize> = by_isd.iter().flat_map(|x| x.1.iter().copied()).collect();
    if all_non.len() >= 2 {
        for _ in 0..ctx.ch.draw(3) {
            let a = all_non[ctx.ch.idx(all_non.len())];
            let b = all_non[ctx.ch.idx(all_non.len())];
            if a != b {
                add(ctx, a, LinkT::Peer, b, &mut links);
            }
        }
    }
    // build the real topology; a link the builder refuses is left out of the mirror as well
    let mut builder = ScionTopologyBuilder::new();
    for a in &m.ases {
        let ia = IsdAsn::from_u64(a.ia);
        let sa = if a.core { ScionAs::new_core(ia) } else { ScionAs::new(ia) };
        builder.add_as(sa.with_forwarding_key(a.key)).expect("fresh AS");
    }
    for (a, ai, lt, b, bi) in links {
        let (from, to) = (IsdAsn::from_u64(m.ases[a].ia), IsdAsn::from_u64(m.ases[b].ia));
        // ScionLink::new(from, if, type, to, if): `from` is <type> of `to`; a sees b as its parent => a is Child of b
        let t = match lt {
            LinkT::Core => ScionLinkType::Core,
            LinkT::Parent => ScionLinkType::Child,
            LinkT::Child => ScionLinkType::Parent,
            LinkT::Peer => ScionLinkType::Peer,
        };
        let Ok(link) = ScionLink::new(from, ai, t, to, bi) else { continue };
        if builder.add_link(link).is_err() {
            continue;
        }
        let rev = match lt {
            LinkT::Core => LinkT::Core,
            LinkT::Parent => LinkT::Child,
            LinkT::Child => LinkT::Parent,
            LinkT::Peer => LinkT::Peer,
        };
        m.ases[a].ifs.insert(ai, MIf { nbr: b, nbr_if: bi, lt, up: true });
        m.ases[b].ifs.insert(bi, MIf { nbr: a, nbr_if: ai, lt: rev, up: true });
        desc.push(format!("link {}#{ai} {:?}-of-peer {}#{bi}", from, lt, to));
    }
    let ases: Vec<(IsdAsn, bool)> = m.ases.iter().map(|a| (IsdAsn::from_u64(a.ia), a.core)).collect();
    let real = builder.build_with_trust_store(trust_store_for(&ases)).expect("topology builds");
    World { m, real, desc }
}
