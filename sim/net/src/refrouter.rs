//! `RefRouter` — an independent SCION border-router step, written from the SCION data-plane specification
//! (draft-dekater-scion-dataplane) and the documented behaviour of the open-source reference router.  It shares
//! no code with sciparse's routing module or pocketscion's validator: own header decoder, own MAC input, AES-CMAC
//! from the `aes`/`cmac` crates as trusted primitives.  See DESIGN.md Appendix A.

use aes::Aes128;
use cmac::{Cmac, Mac};

use crate::topo::{LinkT, Mirror};

#[derive(Clone, Debug, PartialEq, Eq)]
pub enum Verdict {
    Forward(u16),
    Deliver,
    /// refused with an SCMP error of the given class
    Reject(&'static str),
    /// external interface down at (this AS, interface)
    IfDown(u16),
    /// malformed: cannot be answered
    Drop,
    /// the specification leaves the behaviour open (or the router-alert machinery is involved)
    Unspecified(&'static str),
}

pub struct Hdr {
    pub path_type: u8,
    pub path_off: usize,
    pub dst_ia: u64,
    pub src_ia: u64,
    pub hdr_len: usize,
}

/// Own decoder of the SCION common + address header.
pub fn parse_hdr(b: &[u8]) -> Option<Hdr> {
    if b.len() < 12 + 16 {
        return None;
    }
    let hdr_len = b[5] as usize * 4;
    let path_type = b[8];
    let dl = ((b[9] >> 4) & 0x3) as usize;
    let sl = (b[9] & 0x3) as usize;
    let dst_ia = u64::from_be_bytes(b[12..20].try_into().ok()?);
    let src_ia = u64::from_be_bytes(b[20..28].try_into().ok()?);
    let path_off = 28 + (dl + 1) * 4 + (sl + 1) * 4;
    if hdr_len > b.len() || path_off > hdr_len {
        return None;
    }
    Some(Hdr { path_type, path_off, dst_ia, src_ia, hdr_len })
}

#[derive(Clone, Copy, Debug)]
pub struct Info {
    pub peer: bool,
    pub cons: bool,
    pub seg_id: u16,
    pub ts: u32,
}

#[derive(Clone, Copy, Debug)]
pub struct Hop {
    pub alert_cons_in: bool,
    pub alert_cons_eg: bool,
    pub exp: u8,
    pub cons_in: u16,
    pub cons_eg: u16,
    pub mac: [u8; 6],
}

pub struct StdPath {
    pub curr_inf: usize,
    pub curr_hf: usize,
    pub seg_len: [usize; 3],
    pub n_inf: usize,
    pub n_hf: usize,
    /// byte offset of the path within the packet
    pub off: usize,
}

impl StdPath {
    pub fn parse(b: &[u8], off: usize, end: usize) -> Option<StdPath> {
        if off + 4 > end {
            return None;
        }
        let m = u32::from_be_bytes(b[off..off + 4].try_into().ok()?);
        let curr_inf = (m >> 30) as usize;
        let curr_hf = ((m >> 24) & 0x3f) as usize;
        let seg_len = [((m >> 12) & 0x3f) as usize, ((m >> 6) & 0x3f) as usize, (m & 0x3f) as usize];
        let n_inf = seg_len.iter().filter(|x| **x > 0).count();
        let n_hf = seg_len.iter().sum();
        let p = StdPath { curr_inf, curr_hf, seg_len, n_inf, n_hf, off };
        if off + 4 + 8 * n_inf + 12 * n_hf > end {
            return None;
        }
        Some(p)
    }
    pub fn info_off(&self, i: usize) -> usize {
        self.off + 4 + 8 * i
    }
    pub fn hop_off(&self, j: usize) -> usize {
        self.off + 4 + 8 * self.n_inf + 12 * j
    }
    pub fn info(&self, b: &[u8], i: usize) -> Info {
        let o = self.info_off(i);
        Info { peer: b[o] & 0x02 != 0, cons: b[o] & 0x01 != 0, seg_id: u16::from_be_bytes([b[o + 2], b[o + 3]]), ts: u32::from_be_bytes([b[o + 4], b[o + 5], b[o + 6], b[o + 7]]) }
    }
    pub fn hop(&self, b: &[u8], j: usize) -> Hop {
        let o = self.hop_off(j);
        Hop {
            alert_cons_in: b[o] & 0x02 != 0,
            alert_cons_eg: b[o] & 0x01 != 0,
            exp: b[o + 1],
            cons_in: u16::from_be_bytes([b[o + 2], b[o + 3]]),
            cons_eg: u16::from_be_bytes([b[o + 4], b[o + 5]]),
            mac: b[o + 6..o + 12].try_into().unwrap(),
        }
    }
    /// index of the segment containing hop field j
    pub fn seg_of(&self, j: usize) -> Option<usize> {
        let mut acc = 0;
        for (i, l) in self.seg_len.iter().enumerate() {
            acc += l;
            if j < acc {
                return Some(i);
            }
        }
        None
    }
    pub fn seg_start(&self, i: usize) -> usize {
        self.seg_len[..i].iter().sum()
    }
    pub fn set_seg_id(&self, b: &mut [u8], i: usize, v: u16) {
        let o = self.info_off(i);
        b[o + 2..o + 4].copy_from_slice(&v.to_be_bytes());
    }
    pub fn set_pointers(&self, b: &mut [u8], inf: usize, hf: usize) {
        let o = self.off;
        b[o] = ((inf as u8) << 6) | (hf as u8 & 0x3f);
    }
}

pub fn hop_mac(key: &[u8; 16], seg_id: u16, ts: u32, exp: u8, cons_in: u16, cons_eg: u16) -> [u8; 6] {
    let mut input = [0u8; 16];
    input[2..4].copy_from_slice(&seg_id.to_be_bytes());
    input[4..8].copy_from_slice(&ts.to_be_bytes());
    input[9] = exp;
    input[10..12].copy_from_slice(&cons_in.to_be_bytes());
    input[12..14].copy_from_slice(&cons_eg.to_be_bytes());
    let mut m = <Cmac<Aes128> as Mac>::new_from_slice(key).expect("16 byte key");
    m.update(&input);
    let out = m.finalize().into_bytes();
    out[..6].try_into().unwrap()
}

/// Relative hop-field lifetime in *half* seconds: (ExpTime + 1) * 24h/256 = 337.5 s.
fn lifetime_half_secs(exp: u8) -> u64 {
    (exp as u64 + 1) * 675
}

enum Exp {
    Valid,
    Expired,
    /// exactly on the boundary second: implementations legitimately differ (337.5 s granularity)
    Boundary,
    Future,
}

fn expiry(now: u32, ts: u32, exp: u8) -> Exp {
    if ts > now {
        return Exp::Future;
    }
    let end_half = ts as u64 * 2 + lifetime_half_secs(exp);
    let now_half = now as u64 * 2;
    if now_half + 2 <= end_half {
        Exp::Valid
    } else if now_half >= end_half + 2 {
        Exp::Expired
    } else {
        Exp::Boundary
    }
}

/// One border-router step at AS `x` for a packet that arrived on interface `ing` (0 = from inside the AS).
/// Mutates the packet like a router does (SegID accumulator, pointers, consumed alert flags).
pub fn step(m: &Mirror, x: usize, ing: u16, now: u32, b: &mut [u8]) -> Verdict {
    let Some(h) = parse_hdr(b) else { return Verdict::Drop };
    let me = &m.ases[x];
    match h.path_type {
        0 => {
            // empty path: AS-internal
            return if h.dst_ia == me.ia { Verdict::Deliver } else { Verdict::Reject("non-local-delivery") };
        }
        1 => {}
        2 => return step_onehop(m, x, ing, now, b, &h),
        _ => return Verdict::Drop,
    }
    let Some(p) = StdPath::parse(b, h.path_off, h.hdr_len) else { return Verdict::Drop };
    // the path must fill the header's path area exactly; implementations differ on trailing bytes (the open-source
    // router ignores them, a strict parser rejects the packet)
    if p.off + 4 + 8 * p.n_inf + 12 * p.n_hf != h.hdr_len {
        return Verdict::Unspecified("path does not fill the header's path area");
    }
    // 1. well-formedness
    if p.seg_len[0] == 0 || (p.seg_len[1] == 0 && p.seg_len[2] != 0) || p.curr_hf >= p.n_hf {
        return Verdict::Drop;
    }
    let Some(seg) = p.seg_of(p.curr_hf) else { return Verdict::Drop };
    if seg != p.curr_inf {
        return Verdict::Drop;
    }
    let mut j = p.curr_hf;
    let mut i = p.curr_inf;
    let mut hop = p.hop(b, j);
    let mut inf = p.info(b, i);
    let tr_in = |h: &Hop, f: &Info| if f.cons { h.cons_in } else { h.cons_eg };
    let tr_eg = |h: &Hop, f: &Info| if f.cons { h.cons_eg } else { h.cons_in };
    // 2. peering hop?
    let peering = inf.peer && p.seg_len[1] > 0 && p.seg_len[2] == 0 && (j + 1 == p.seg_len[0] || j == p.seg_len[0]);
    // a segment of a single hop field only occurs on peering paths between the two peering ASes themselves (both
    // hop fields are peering hop fields); anywhere else the specification does not say what a router does with it
    let peering_path = p.seg_len[1] > 0 && p.seg_len[2] == 0 && p.info(b, 0).peer && p.info(b, 1).peer;
    if p.seg_len.iter().any(|l| *l == 1) && !peering_path {
        return Verdict::Unspecified("single-hop segment outside a peering path");
    }
    // router alert addressed to this router: handled by the alert machinery (judged elsewhere)
    let alert_in = if inf.cons { hop.alert_cons_in } else { hop.alert_cons_eg };
    let alert_eg = if inf.cons { hop.alert_cons_eg } else { hop.alert_cons_in };
    if alert_in || alert_eg {
        return Verdict::Unspecified("router-alert");
    }
    // 3. ingress interface
    if ing != 0 && tr_in(&hop, &inf) != ing {
        return Verdict::Reject("unknown-ingress-if");
    }
    // source / destination plausibility
    let src_local = h.src_ia == me.ia;
    let dst_local = h.dst_ia == me.ia;
    if ing == 0 {
        if !src_local || dst_local {
            return Verdict::Unspecified("src/dst plausibility of a packet from inside the AS");
        }
    } else if src_local {
        return Verdict::Unspecified("packet from outside claims a local source");
    }
    // 4. expiry
    match expiry(now, inf.ts, hop.exp) {
        Exp::Valid => {}
        Exp::Expired => return Verdict::Reject("path-expired"),
        Exp::Boundary => return Verdict::Unspecified("expiry boundary second"),
        Exp::Future => return Verdict::Unspecified("info timestamp in the future"),
    }
    // 5. authentication
    let mut seg_id = inf.seg_id;
    if !inf.cons && ing != 0 && !peering {
        seg_id ^= u16::from_be_bytes([hop.mac[0], hop.mac[1]]);
        p.set_seg_id(b, i, seg_id);
    }
    if hop_mac(&me.key, seg_id, inf.ts, hop.exp, hop.cons_in, hop.cons_eg) != hop.mac {
        return Verdict::Reject("invalid-mac");
    }
    // 6. delivery
    let last = j + 1 == p.n_hf;
    if ing != 0 && (last != dst_local) {
        return Verdict::Reject(if last { "non-local-delivery" } else { "invalid-path" });
    }
    if last {
        if ing == 0 {
            return Verdict::Unspecified("path starts and ends in this AS");
        }
        return Verdict::Deliver;
    }
    // 7. cross-over
    let seg_end = j + 1 == p.seg_start(i) + p.seg_len[i];
    let mut xover = false;
    if seg_end && !peering {
        if ing == 0 {
            return Verdict::Reject("invalid-segment-change");
        }
        xover = true;
        j += 1;
        i += 1;
        p.set_pointers(b, i, j);
        hop = p.hop(b, j);
        inf = p.info(b, i);
        let alert_in2 = if inf.cons { hop.alert_cons_in } else { hop.alert_cons_eg };
        let alert_eg2 = if inf.cons { hop.alert_cons_eg } else { hop.alert_cons_in };
        if alert_in2 || alert_eg2 {
            return Verdict::Unspecified("router-alert on a cross-over hop field");
        }
        match expiry(now, inf.ts, hop.exp) {
            Exp::Valid => {}
            Exp::Expired => return Verdict::Reject("path-expired"),
            Exp::Boundary => return Verdict::Unspecified("expiry boundary second"),
            Exp::Future => return Verdict::Unspecified("info timestamp in the future"),
        }
        if hop_mac(&me.key, inf.seg_id, inf.ts, hop.exp, hop.cons_in, hop.cons_eg) != hop.mac {
            return Verdict::Reject("invalid-mac");
        }
        if j + 1 == p.n_hf {
            // a segment of a single hop field after the cross-over was excluded above; a cross-over onto the
            // last hop field cannot happen (segments have >= 2 hop fields)
            return Verdict::Drop;
        }
    }
    // 8. egress
    let eg = tr_eg(&hop, &inf);
    let Some(egif) = (if eg == 0 { None } else { me.ifs.get(&eg) }) else {
        return Verdict::Reject("unknown-egress-if");
    };
    if ing != 0 {
        let Some(inif) = me.ifs.get(&ing) else { return Verdict::Unspecified("arrival on an interface the AS does not have") };
        let ok = if !xover {
            matches!((inif.lt, egif.lt), (LinkT::Core, LinkT::Core) | (LinkT::Child, LinkT::Parent) | (LinkT::Parent, LinkT::Child) | (LinkT::Child, LinkT::Peer) | (LinkT::Peer, LinkT::Child))
        } else {
            matches!((inif.lt, egif.lt), (LinkT::Core, LinkT::Child) | (LinkT::Child, LinkT::Core) | (LinkT::Child, LinkT::Child))
        };
        if !ok {
            return Verdict::Reject(if xover { "invalid-segment-change" } else { "invalid-path" });
        }
    }
    if !egif.up {
        return Verdict::IfDown(eg);
    }
    // 9. egress update
    if inf.cons && !peering {
        let nid = inf.seg_id ^ u16::from_be_bytes([hop.mac[0], hop.mac[1]]);
        p.set_seg_id(b, i, nid);
    }
    let nj = j + 1;
    let ni = p.seg_of(nj).unwrap_or(i);
    p.set_pointers(b, ni, nj);
    Verdict::Forward(eg)
}

/// One-hop paths (info field + two hop fields, path type 2).
fn step_onehop(m: &Mirror, x: usize, ing: u16, now: u32, b: &mut [u8], h: &Hdr) -> Verdict {
    let me = &m.ases[x];
    let o = h.path_off;
    if o + 8 + 24 > h.hdr_len {
        return Verdict::Drop;
    }
    let cons = b[o] & 0x01 != 0;
    let seg_id = u16::from_be_bytes([b[o + 2], b[o + 3]]);
    let ts = u32::from_be_bytes([b[o + 4], b[o + 5], b[o + 6], b[o + 7]]);
    let h1 = o + 8;
    let exp = b[h1 + 1];
    let cons_in = u16::from_be_bytes([b[h1 + 2], b[h1 + 3]]);
    let cons_eg = u16::from_be_bytes([b[h1 + 4], b[h1 + 5]]);
    let mac: [u8; 6] = b[h1 + 6..h1 + 12].try_into().unwrap();
    if !cons {
        return Verdict::Unspecified("one-hop path against construction direction");
    }
    if ing == 0 {
        // first AS: hop field 1 is checked like any hop field
        match expiry(now, ts, exp) {
            Exp::Valid => {}
            Exp::Expired => return Verdict::Reject("path-expired"),
            Exp::Boundary => return Verdict::Unspecified("expiry boundary second"),
            Exp::Future => return Verdict::Unspecified("info timestamp in the future"),
        }
        if hop_mac(&me.key, seg_id, ts, exp, cons_in, cons_eg) != mac {
            return Verdict::Reject("invalid-mac");
        }
        let Some(egif) = (if cons_eg == 0 { None } else { me.ifs.get(&cons_eg) }) else { return Verdict::Reject("unknown-egress-if") };
        if !egif.up {
            return Verdict::IfDown(cons_eg);
        }
        let nid = seg_id ^ u16::from_be_bytes([mac[0], mac[1]]);
        b[o + 2..o + 4].copy_from_slice(&nid.to_be_bytes());
        Verdict::Forward(cons_eg)
    } else {
        // second AS: the router fills in hop field 2 and delivers locally
        if h.dst_ia != me.ia {
            return Verdict::Reject("non-local-delivery");
        }
        Verdict::Deliver
    }
}
