//! C14 — SCMP ping-pong between simulated hosts and pocketscion's routers: real `NetworkSimulator::dispatch`
//! (traversal + `LocalNetworkSimulation`: error generation, `maybe_create_scmp_reply`, delivery to registered
//! receivers), hosts answering with the SDK's `DefaultEchoHandler`.  The driver owns the hosts' inboxes and
//! decides when a host reacts; links fail, paths expire, destinations do not exist.

use std::net::{IpAddr, Ipv4Addr};
use std::sync::{Arc, Mutex};

use pocketscion::network::local::external_as_registry::ExternalAsRegistry;
use pocketscion::network::local::receiver_registry::NetworkReceiverRegistry;
use pocketscion::network::local::receivers::Receiver;
use pocketscion::network::scion::routing::ScionNetworkTime;
use pocketscion::network::scion::segment::registry::SegmentRegistry;
use pocketscion::network::simulator::NetworkSimulator;
use scion_stack::stack::scmp_handler::{DefaultEchoHandler, ScmpHandler};
use sciparse::address::ip_addr::ScionIpAddr;
use sciparse::core::model::Model;
use sciparse::core::view::View;
use sciparse::dataplane_path::view::ScionDpPathViewExt;
use sciparse::identifier::isd_asn::IsdAsn;
use sciparse::packet::model::{ScionRawPacket, ScionScmpPacket};
use sciparse::packet::view::ScionRawPacketView;
use sciparse::path::ScionPath;
use sciparse::payload::scmp::model::{ScmpDestinationUnreachable, ScmpEchoRequest, ScmpErrorMessage, ScmpMessage, ScmpParameterProblem};
use sciparse::payload::scmp::types::{ScmpDestinationUnreachableCode, ScmpParameterProblemCode};
use sciparse::payload::ProtocolNumber;
use simcore::{RunCtx, RunResult};

use crate::refrouter;
use crate::topo;
use crate::{offered, T0};

struct Host {
    inbox: Mutex<Vec<Vec<u8>>>,
}

impl Receiver for Host {
    fn receive_packet(&self, packet: &ScionRawPacketView) {
        self.inbox.lock().unwrap().push(packet.as_slice().to_vec());
    }
}

fn host_ip(k: u8) -> IpAddr {
    IpAddr::V4(Ipv4Addr::new(10, 0, 0, k))
}

fn saddr(ia: IsdAsn, k: u8) -> sciparse::address::addr::ScionAddr {
    ScionIpAddr::new(ia, host_ip(k)).into()
}

pub fn scmp_checksum_ok_pub(b: &[u8]) -> Option<bool> {
    scmp_checksum_ok(b)
}

/// Independent Internet checksum over the SCION pseudo header and the upper-layer payload (as transmitted).
fn scmp_checksum_ok(b: &[u8]) -> Option<bool> {
    let h = refrouter::parse_hdr(b)?;
    let dl = (((b[9] >> 4) & 0x3) as usize + 1) * 4;
    let sl = ((b[9] & 0x3) as usize + 1) * 4;
    let payload = b.get(h.hdr_len..)?;
    let mut sum: u32 = 0;
    let mut add = |bytes: &[u8]| {
        let mut i = 0;
        while i + 1 < bytes.len() {
            sum += u16::from_be_bytes([bytes[i], bytes[i + 1]]) as u32;
            i += 2;
        }
        if i < bytes.len() {
            sum += (bytes[i] as u32) << 8;
        }
    };
    add(&b[12..28]); // Dst ISD-AS, Src ISD-AS
    add(&b[28..28 + dl + sl]); // host addresses
    add(&(payload.len() as u32).to_be_bytes());
    add(&[0, 0, 0, b[4]]);
    add(payload);
    while sum >> 16 != 0 {
        sum = (sum & 0xffff) + (sum >> 16);
    }
    if std::env::var("VERIF_DEBUG_CKS").is_ok() {
        eprintln!("cks debug: field={:02x}{:02x} folded_sum={:04x} payload_len={} hdr_len={} total={}", payload[2], payload[3], sum, payload.len(), h.hdr_len, b.len());
    }
    Some(sum == 0xffff)
}

/// Bytes of a packet that routers legitimately rewrite in flight: the path meta pointer byte, every info field's
/// SegID, every hop field's flag byte.  Returned as a mask (true = mutable).
fn mutable_mask(b: &[u8]) -> Vec<bool> {
    let mut m = vec![false; b.len()];
    if let Some(h) = refrouter::parse_hdr(b) {
        if h.path_type == 1 {
            if let Some(sp) = refrouter::StdPath::parse(b, h.path_off, h.hdr_len) {
                m[sp.off] = true;
                for i in 0..sp.n_inf {
                    m[sp.info_off(i) + 2] = true;
                    m[sp.info_off(i) + 3] = true;
                }
                for j in 0..sp.n_hf {
                    m[sp.hop_off(j)] = true;
                }
            }
        }
    }
    m
}

struct Inj {
    kind: &'static str,
    bytes: Vec<u8>,
    src_host: Option<usize>,
    dst_host: Option<usize>,
    is_scmp_error: bool,
    malformed: bool,
    echo: Option<(u16, u16, Vec<u8>)>,
}

pub fn run_c14(ctx: &mut RunCtx) -> RunResult {
    // a third of the runs exercise the endhost side: the socket receive loop over a simulated underlay
    if ctx.ch.chance(1, 3) {
        return crate::sock::run_sock(ctx);
    }
    // a sixth of the rest: the SNAP gateway's SCMP builder under a hostile tunnel peer
    if ctx.ch.chance(1, 6) {
        return crate::gw::run_gateway(ctx);
    }
    let mut w = topo::draw(ctx);
    let n = w.m.ases.len();
    // hosts: one per AS for a drawn subset (always at least two if the topology has two ASes)
    let mut host_as: Vec<usize> = (0..n).filter(|_| ctx.ch.chance(2, 3)).collect();
    if host_as.len() < 2 {
        host_as = (0..n.min(2)).collect();
    }
    let hosts: Vec<Arc<Host>> = host_as.iter().map(|_| Arc::new(Host { inbox: Mutex::new(Vec::new()) })).collect();
    let mut receivers = NetworkReceiverRegistry::new();
    for (k, a) in host_as.iter().enumerate() {
        receivers.add_receiver(w.m.isd_asn(*a), "10.0.0.2/32".parse().unwrap(), hosts[k].clone()).expect("receiver");
    }
    let externals = ExternalAsRegistry::new();
    let reg = SegmentRegistry::from_topology(&w.real);
    let ts = T0 - 10;
    let exp = [255u8, 1][ctx.ch.idx(2)];
    let life = ((exp as u64 + 1) * 675 / 2) as u32;
    ctx.log(format!("c14 hosts in {:?} exp={exp}", host_as.iter().map(|a| w.m.name(*a)).collect::<Vec<_>>()));
    let echo = DefaultEchoHandler::new();
    let n_inj = 1 + ctx.ch.idx(5);
    for _ in 0..n_inj {
        let (sk, dk) = (ctx.ch.idx(hosts.len()), ctx.ch.idx(hosts.len()));
        if sk == dk {
            continue;
        }
        let (sa, da) = (host_as[sk], host_as[dk]);
        let paths: Vec<ScionPath> = offered(&w, &reg, sa, da, ts, ctx.ch.draw(65536) as u16, exp, false).unwrap_or_default().into_iter().filter(|p| !crate::shape(p).contains('P')).collect();
        if paths.is_empty() {
            continue;
        }
        let p = &paths[ctx.ch.idx(paths.len().min(4))];
        let (sia, dia) = (w.m.isd_asn(sa), w.m.isd_asn(da));
        // payload size: boundary-directed around the 1232-byte quoting budget and up to 9216
        let sizes = [0usize, 1, 8, 600, 1100, 1150, 1180, 1200, 1232, 1300, 4000, 9216];
        let size = sizes[ctx.ch.idx(sizes.len())];
        let payload: Vec<u8> = (0..size).map(|i| (i as u8).wrapping_mul(13).wrapping_add(7)).collect();
        let dp = p.dp_path().to_model();
        let kind = ctx.ch.draw(8);
        let mut inj = Inj { kind: "", bytes: Vec::new(), src_host: Some(sk), dst_host: Some(dk), is_scmp_error: false, malformed: false, echo: None };
        let enc = |pkt: ScionRawPacket| pkt.try_encode_to_owned_view().ok().map(|v| v.as_slice().to_vec());
        let bytes = match kind {
            0 | 1 => {
                inj.kind = "udp";
                enc(ScionRawPacket::new(saddr(sia, 2), saddr(dia, 2), dp.clone(), ProtocolNumber::Other(253), payload.clone()))
            }
            2 => {
                inj.kind = "udp-to-unknown-host";
                inj.dst_host = None;
                enc(ScionRawPacket::new(saddr(sia, 2), saddr(dia, 77), dp.clone(), ProtocolNumber::Other(253), payload.clone()))
            }
            3 | 4 => {
                inj.kind = "echo-request";
                let (id, seq) = (ctx.ch.draw(65536) as u16, ctx.ch.draw(65536) as u16);
                let data: Vec<u8> = payload.iter().take(size.min(1000)).copied().collect();
                inj.echo = Some((id, seq, data.clone()));
                enc(ScionScmpPacket::new(saddr(sia, 2), saddr(dia, 2), dp.clone(), ScmpMessage::EchoRequest(ScmpEchoRequest::new(id, seq, data))).into())
            }
            5 => {
                inj.kind = "scmp-error";
                inj.is_scmp_error = true;
                let quoted: Vec<u8> = payload.iter().take(size.min(800)).copied().collect();
                let e: ScmpErrorMessage = if ctx.ch.chance(1, 2) {
                    ScmpDestinationUnreachable::new(ScmpDestinationUnreachableCode::AddressUnreachable, quoted).into()
                } else {
                    ScmpParameterProblem::new(ScmpParameterProblemCode::InvalidPath, 0, quoted).into()
                };
                enc(ScionScmpPacket::new(saddr(sia, 2), saddr(dia, 2), dp.clone(), e.into()).into())
            }
            6 => {
                inj.kind = "scmp-error-to-unknown-host";
                inj.is_scmp_error = true;
                inj.dst_host = None;
                let e: ScmpErrorMessage = ScmpDestinationUnreachable::new(ScmpDestinationUnreachableCode::AddressUnreachable, payload.iter().take(64).copied().collect()).into();
                enc(ScionScmpPacket::new(saddr(sia, 2), saddr(dia, 77), dp.clone(), e.into()).into())
            }
            _ => {
                inj.kind = "malformed-scmp";
                inj.malformed = true;
                // next header SCMP, payload too short / garbage for an SCMP message
                let junk: Vec<u8> = payload.iter().take([0usize, 1, 3, 5][ctx.ch.idx(4)]).copied().collect();
                enc(ScionRawPacket::new(saddr(sia, 2), saddr(dia, if ctx.ch.chance(1, 2) { 2 } else { 77 }), dp.clone(), ProtocolNumber::Scmp, junk))
            }
        };
        let Some(bytes) = bytes else { continue };
        inj.bytes = bytes;
        // network condition for this injection
        let cond = ctx.ch.draw(4);
        let mut now = ts + 1 + ctx.ch.draw((life - 3) as u64) as u32;
        let mut downed: Option<(usize, u16)> = None;
        // reference walk (fault-free) to learn the route and place the fault
        let r0 = crate::walk(&mut w, false, &inj.bytes, sa, 0, now, &[], 200);
        match cond {
            1 if r0.steps.len() >= 2 => {
                // a link on the route is down
                let k = ctx.ch.idx(r0.steps.len() - 1);
                let st = &r0.steps[k];
                if let Some(eg) = st.out.strip_prefix("Forward(").and_then(|s| s.trim_end_matches(')').parse::<u16>().ok()) {
                    if let Some(l) = w.real.mut_scion_link(&w.m.isd_asn(st.at), eg) {
                        l.set_is_up(false);
                    }
                    w.m.set_up(st.at, eg, false);
                    downed = Some((st.at, eg));
                    ctx.fault("link-down");
                }
            }
            2 => {
                now = ts + life + 10;
                ctx.fault("path-expired");
            }
            _ => {}
        }
        let expect = crate::walk(&mut w, false, &inj.bytes, sa, 0, now, &[], 200);
        for h in &hosts {
            h.inbox.lock().unwrap().clear();
        }
        ctx.log(format!("inject {} {}->{} len={} cond={cond} reference={} cks={:?}", inj.kind, w.m.name(sa), w.m.name(da), inj.bytes.len(), expect.fin.class(), if inj.bytes[4] == 202 { scmp_checksum_ok(&inj.bytes) } else { None }));
        if inj.bytes[4] == 202 && !inj.malformed {
            reused_buffer(ctx, &inj.bytes, inj.kind)?;
        }
        // ---- the real network
        let sim = NetworkSimulator::new(&receivers, &externals, &w.real, false);
        {
            let mut b = inj.bytes.clone();
            if let Ok((v, _)) = ScionRawPacketView::try_from_mut_slice(&mut b) {
                sim.dispatch(sia, 0, ScionNetworkTime::from_timestamp_secs(now), v);
            }
        }
        // hosts react (echo handler) until nothing moves any more; bounded
        let mut all_rx: Vec<(usize, Vec<u8>)> = Vec::new();
        let mut rounds = 0;
        loop {
            rounds += 1;
            let mut any = false;
            for (k, h) in hosts.iter().enumerate() {
                let got: Vec<Vec<u8>> = std::mem::take(&mut *h.inbox.lock().unwrap());
                for pkt in got {
                    any = true;
                    all_rx.push((k, pkt.clone()));
                    if let Ok((v, _)) = ScionRawPacketView::try_from_slice(&pkt) {
                        if let Some(reply) = echo.handle(v) {
                            ctx.probe("host-replied");
                            if let Ok(mut rv) = reply.try_encode_to_owned_view() {
                                sim.dispatch(w.m.isd_asn(host_as[k]), 0, ScionNetworkTime::from_timestamp_secs(now), &mut rv);
                            }
                        }
                    }
                }
            }
            if !any || rounds > 8 {
                break;
            }
        }
        if let Some((a, i)) = downed {
            if let Some(l) = w.real.mut_scion_link(&w.m.isd_asn(a), i) {
                l.set_is_up(true);
            }
            w.m.set_up(a, i, true);
        }
        judge(ctx, &w, &inj, &expect.fin, &all_rx, rounds, &host_as)?;
    }
    Ok(())
}

/// Fault "reused buffer": the SDK's packet-buffer pools hand out buffers that still hold the bytes of an earlier packet
/// (`PacketBufPool`, used by the SNAP gateway when it builds its SCMP errors). The message a component built is encoded
/// again by the SDK's encoder into such a buffer (old content drawn); the result must be the same packet, with a valid
/// checksum, as the encoding into a fresh zeroed buffer.
pub fn reused_buffer(ctx: &mut RunCtx, b: &[u8], what: &str) -> RunResult {
    use sciparse::core::convert::TryFromView;
    use sciparse::core::encode::WireEncode;
    use sciparse::packet::view::ScionScmpPacketView;
    let Ok((view, _)) = ScionScmpPacketView::try_from_slice(b) else { return Ok(()) };
    let Ok(model) = ScionScmpPacket::try_from_view(view) else { return Ok(()) };
    let Ok(clean) = model.try_encode_to_vec() else { return Ok(()) };
    let seed = ctx.ch.draw(256) as u8;
    ctx.fault("reused-buffer");
    let mut dirty: Vec<u8> = (0..clean.len() + 16).map(|i| seed.wrapping_add((i as u8).wrapping_mul(37)) | 1).collect();
    let n = match model.try_encode(&mut dirty) {
        Ok(n) => n,
        Err(e) => return ctx.violate("C14/reused-buffer/encode-fails", format!("{what}: encoding into a used buffer fails ({e:?}) although encoding into a fresh one succeeds")),
    };
    let ty = b.get(refrouter::parse_hdr(b).map(|h| h.hdr_len).unwrap_or(0)).copied().unwrap_or(0);
    if scmp_checksum_ok(&clean) == Some(true) && scmp_checksum_ok(&dirty[..n]) != Some(true) {
        return ctx.violate("C14/bad-checksum/reused-buffer", format!("{what}: SCMP message type {ty} encoded into a used buffer (old bytes seed {seed}) has an invalid checksum"));
    }
    // Only the SCMP message is compared: C14 speaks about the message (checksum, quote, echo fields). The path meta
    // header's six reserved bits are not written by the SDK's encoder and do leak old buffer content (DESIGN §8) - no listed
    // property covers them, so that is counted, not judged.
    let hl = refrouter::parse_hdr(&clean).map(|h| h.hdr_len).unwrap_or(clean.len());
    if n != clean.len() || dirty[hl.min(n)..n] != clean[hl..] {
        let at = dirty[..n].iter().zip(clean.iter()).skip(hl).position(|(a, b)| a != b).map(|x| x + hl).unwrap_or(n.min(clean.len()));
        return ctx.violate("C14/reused-buffer/message-depends-on-old-content", format!("{what}: SCMP message type {ty} encoded into a used buffer differs from the fresh encoding at byte {at} (message starts at {hl})"));
    }
    if dirty[..hl] != clean[..hl] {
        ctx.probe("reused-buffer-header-reserved-bits-leak");
    }
    ctx.probe("reused-buffer-checked");
    Ok(())
}

fn judge(ctx: &mut RunCtx, w: &topo::World, inj: &Inj, expect: &crate::Final, rx: &[(usize, Vec<u8>)], rounds: usize, host_as: &[usize]) -> RunResult {
    ctx.checked();
    if rounds > 8 {
        return ctx.violate("C14/ping-pong-does-not-terminate", format!("{}: hosts and routers were still exchanging packets after 8 rounds", inj.kind));
    }
    let summarize = |b: &[u8]| -> String {
        let h = refrouter::parse_hdr(b);
        match h {
            Some(h) => format!("{}B nh={} {}->{}", b.len(), b[4], IsdAsn::from_u64(h.src_ia), IsdAsn::from_u64(h.dst_ia)),
            None => format!("{}B ?", b.len()),
        }
    };
    for (k, b) in rx {
        ctx.log(format!("  rx host@{} {}", w.m.name(host_as[*k]), summarize(b)));
    }
    // every SCMP error seen anywhere
    let mut errors_at_src = 0;
    let mut replies_at_src = 0;
    let mut at_dst = 0;
    for (k, b) in rx {
        let Some(h) = refrouter::parse_hdr(b) else {
            return ctx.violate("C14/unparsable-packet-delivered", format!("{}: a host received {} unparsable bytes", inj.kind, b.len()));
        };
        let is_original = Some(*k) == inj.dst_host && b.len() == inj.bytes.len() && b[h.hdr_len..] == inj.bytes[h.hdr_len.min(inj.bytes.len())..];
        if is_original {
            at_dst += 1;
            continue;
        }
        if b[4] == 202 {
            let msg = &b[h.hdr_len..];
            if msg.len() < 4 {
                return ctx.violate("C14/truncated-scmp-generated", format!("{}: generated SCMP message of {} bytes", inj.kind, msg.len()));
            }
            let ty = msg[0];
            match scmp_checksum_ok(b) {
                Some(true) => {}
                _ => return ctx.violate("C14/bad-checksum", format!("{}: generated SCMP message type {ty} has an invalid checksum", inj.kind)),
            }
            reused_buffer(ctx, b, inj.kind)?;
            if ty < 128 {
                // error message
                ctx.probe("scmp-error-observed");
                if Some(*k) == inj.src_host {
                    errors_at_src += 1;
                }
                if b.len() > 1232 {
                    return ctx.violate("C14/error-packet-too-long", format!("{}: SCMP error packet of {} bytes (offending packet {} bytes)", inj.kind, b.len(), inj.bytes.len()));
                }
                if inj.bytes.len() > 1300 {
                    ctx.probe("quote-truncated");
                }
                // quote = prefix of the offending packet (modulo the fields routers rewrite in flight)
                let quote_off = match ty {
                    1 | 2 | 4 => 8,       // destination unreachable, packet too big, parameter problem: 4-byte field after the header
                    5 => 4 + 4 + 8 + 8,   // external interface down: header, ISD-AS (8), interface id (8)
                    6 => 4 + 4 + 8 + 8 + 8, // internal connectivity down: + second interface id
                    _ => 8,
                };
                // (type 5/6 layouts: type,code,checksum | ISD(2) AS(6) | IfID(8) [| IfID(8)])
                let quote_off = if ty == 5 { 4 + 8 + 8 } else if ty == 6 { 4 + 8 + 8 + 8 } else { quote_off };
                let quote = msg.get(quote_off..).unwrap_or(&[]);
                let mask = mutable_mask(&inj.bytes);
                let mut bad = None;
                if quote.len() > inj.bytes.len() {
                    bad = Some(format!("quote is longer ({}) than the offending packet ({})", quote.len(), inj.bytes.len()));
                } else {
                    for i in 0..quote.len() {
                        if quote[i] != inj.bytes[i] && !mask[i] {
                            bad = Some(format!("quote differs from the offending packet at byte {i}"));
                            break;
                        }
                    }
                }
                if quote.is_empty() && !inj.bytes.is_empty() {
                    bad = Some("nothing of the offending packet is quoted".into());
                }
                if let Some(why) = bad {
                    return ctx.violate("C14/quote-not-a-prefix", format!("{}: SCMP error type {ty}: {why}", inj.kind));
                }
                ctx.probe("quote-checked");
                if inj.is_scmp_error || inj.malformed {
                    return ctx.violate("C14/reply-to-error-or-malformed", format!("a {} packet triggered an SCMP error (type {ty}) sent to {}", inj.kind, w.m.name(host_as[*k])));
                }
            } else if ty == 129 {
                // echo reply
                if Some(*k) == inj.src_host {
                    replies_at_src += 1;
                }
                match &inj.echo {
                    None => return ctx.violate("C14/unsolicited-echo-reply", format!("{}: an echo reply appeared", inj.kind)),
                    Some((id, seq, data)) => {
                        let rid = u16::from_be_bytes([msg[4], msg[5]]);
                        let rseq = u16::from_be_bytes([msg[6], msg[7]]);
                        if rid != *id || rseq != *seq || &msg[8..] != data.as_slice() {
                            return ctx.violate("C14/echo-reply-differs", format!("echo reply id/seq/data = {rid}/{rseq}/{}B, request {id}/{seq}/{}B", msg.len() - 8, data.len()));
                        }
                        let (oh, _) = (refrouter::parse_hdr(&inj.bytes).unwrap(), 0);
                        if h.dst_ia != oh.src_ia || h.src_ia != oh.dst_ia || Some(*k) != inj.src_host {
                            return ctx.violate("C14/echo-reply-misaddressed", format!("echo reply travels {}->{} and was received in {}", IsdAsn::from_u64(h.src_ia), IsdAsn::from_u64(h.dst_ia), w.m.name(host_as[*k])));
                        }
                        ctx.probe("echo-reply-checked");
                    }
                }
            } else if inj.is_scmp_error || inj.malformed {
                return ctx.violate("C14/reply-to-error-or-malformed", format!("a {} packet triggered an SCMP message type {ty}", inj.kind));
            }
        } else if inj.is_scmp_error || inj.malformed {
            return ctx.violate("C14/reply-to-error-or-malformed", format!("a {} packet triggered a reply (next header {})", inj.kind, b[4]));
        }
    }
    // expectations by what the reference network does with the injected packet
    let delivered = matches!(expect, crate::Final::Delivered(_));
    if rx.len() > 2 {
        return ctx.violate("C14/too-many-packets", format!("{}: {} packets reached hosts for one injection", inj.kind, rx.len()));
    }
    if delivered {
        match inj.kind {
            "udp" | "scmp-error" => {
                if at_dst != 1 || rx.len() != 1 {
                    return ctx.violate("C14/datagram-delivery-disturbed", format!("{}: expected exactly one delivery at the destination host, saw {at_dst} (and {} packets in total)", inj.kind, rx.len()));
                }
            }
            "echo-request" => {
                if at_dst != 1 || replies_at_src != 1 || rx.len() != 2 {
                    return ctx.violate("C14/echo-not-answered-exactly-once", format!("echo request: delivered {at_dst}x, answered {replies_at_src}x, {} packets in total", rx.len()));
                }
                ctx.probe("echo-round-trip");
            }
            "udp-to-unknown-host" => {
                if errors_at_src != 1 || rx.len() != 1 {
                    return ctx.violate("C14/missing-destination-unreachable", format!("datagram to a host that does not exist: {errors_at_src} errors at the sender, {} packets in total", rx.len()));
                }
            }
            _ => {
                if !rx.iter().all(|(k, _)| Some(*k) == inj.dst_host) {
                    return ctx.violate("C14/reply-to-error-or-malformed", format!("{}: something was sent back", inj.kind));
                }
            }
        }
    } else if matches!(expect, crate::Final::Refused(..) | crate::Final::LinkDown(..)) {
        if at_dst != 0 {
            return ctx.violate("C14/delivered-although-refused", format!("{}: the reference network refuses the packet but the destination host received it", inj.kind));
        }
        if (inj.is_scmp_error || inj.malformed) && !rx.is_empty() {
            return ctx.violate("C14/reply-to-error-or-malformed", format!("{}: {} packets appeared", inj.kind, rx.len()));
        }
        if !inj.is_scmp_error && !inj.malformed && errors_at_src > 1 {
            return ctx.violate("C14/too-many-packets", format!("{}: {errors_at_src} errors for one refused packet", inj.kind));
        }
        if errors_at_src == 1 {
            ctx.probe("error-for-refused-packet");
        }
    }
    Ok(())
}
