//! C14, endhost side: the real `PathUnawareUdpScionSocket::recv_from` loop with the SCMP handlers the stack
//! installs, over a simulated underlay, on the simrt runtime.  Datagrams and SCMP packets of every kind arrive in a
//! drawn order; the receiving task is cancelled and restarted at drawn points; the underlay wakes it spuriously;
//! sending a reply fails with `WouldBlock` / `Closed` at drawn times.

use std::collections::VecDeque;
use std::future::Future;
use std::io;
use std::net::{IpAddr, Ipv4Addr};
use std::pin::Pin;
use std::sync::{Arc, Mutex};
use std::task::{Context, Poll, Waker};

use scion_stack::stack::scmp_handler::ScmpErrorReceiver;
use scion_stack::stack::verif_socket::{path_unaware_udp_socket, VerifUnderlay};
use sciparse::address::ip_addr::ScionIpAddr;
use sciparse::address::ip_socket_addr::ScionSocketIpAddr;
use sciparse::core::model::Model;
use sciparse::core::view::View;
use sciparse::dataplane_path::view::ScionDpPathViewRef;
use sciparse::identifier::{asn::Asn, isd::Isd, isd_asn::IsdAsn};
use sciparse::packet::model::ScionRawPacket;
use sciparse::payload::scmp::model::{
    ScmpDestinationUnreachable, ScmpEchoReply, ScmpEchoRequest, ScmpErrorMessage, ScmpExternalInterfaceDown, ScmpInternalConnectivityDown, ScmpMessage, ScmpPacketTooBig, ScmpParameterProblem, ScmpTracerouteRequest,
};
use sciparse::payload::scmp::types::{ScmpDestinationUnreachableCode, ScmpParameterProblemCode};
use sciparse::payload::ProtocolNumber;
use sciparse::util::test_builder::TestPathBuilder;
use simcore::{RunCtx, RunResult};
use simrt::{ActorId, Sim};

#[derive(Clone, Copy, PartialEq, Debug)]
enum SendMode {
    Ok,
    WouldBlock,
    Closed,
}

struct UnderlayState {
    inbox: VecDeque<Vec<u8>>,
    rx_waker: Option<Waker>,
    sent: Vec<Vec<u8>>,
    send_mode: SendMode,
    spurious: bool,
    send_attempts: usize,
}

struct SimUnderlay {
    st: Mutex<UnderlayState>,
}

struct Readable<'a>(&'a SimUnderlay);

impl Future for Readable<'_> {
    type Output = ();
    fn poll(self: Pin<&mut Self>, cx: &mut Context<'_>) -> Poll<()> {
        let mut st = self.0.st.lock().unwrap();
        if !st.inbox.is_empty() || st.spurious {
            st.spurious = false;
            return Poll::Ready(());
        }
        st.rx_waker = Some(cx.waker().clone());
        Poll::Pending
    }
}

impl VerifUnderlay for SimUnderlay {
    fn try_send(&self, packet: &[u8]) -> Result<(), io::ErrorKind> {
        let mut st = self.st.lock().unwrap();
        st.send_attempts += 1;
        match st.send_mode {
            SendMode::Ok => {
                st.sent.push(packet.to_vec());
                Ok(())
            }
            SendMode::WouldBlock => Err(io::ErrorKind::WouldBlock),
            SendMode::Closed => Err(io::ErrorKind::NotConnected),
        }
    }
    fn try_recv(&self, buf: &mut [u8]) -> Result<usize, io::ErrorKind> {
        let mut st = self.st.lock().unwrap();
        match st.inbox.pop_front() {
            Some(p) => {
                buf[..p.len()].copy_from_slice(&p);
                Ok(p.len())
            }
            None => Err(io::ErrorKind::WouldBlock),
        }
    }
    fn readable(&self) -> Pin<Box<dyn Future<Output = ()> + Send + '_>> {
        Box::pin(Readable(self))
    }
    fn writeable(&self) -> Pin<Box<dyn Future<Output = ()> + Send + '_>> {
        Box::pin(std::future::ready(()))
    }
}

struct Recorder {
    seen: Mutex<Vec<String>>,
}

impl ScmpErrorReceiver for Recorder {
    fn report_scmp_error(&self, e: ScmpErrorMessage, _path: ScionDpPathViewRef<'_>) {
        let kind = match e {
            ScmpErrorMessage::DestinationUnreachable(_) => "dest-unreachable",
            ScmpErrorMessage::PacketTooBig(_) => "packet-too-big",
            ScmpErrorMessage::ParameterProblem(_) => "parameter-problem",
            ScmpErrorMessage::ExternalInterfaceDown(_) => "ext-if-down",
            ScmpErrorMessage::InternalConnectivityDown(_) => "int-conn-down",
        };
        self.seen.lock().unwrap().push(kind.to_string());
    }
}

fn ia(a: u64) -> IsdAsn {
    IsdAsn::new(Isd(1), Asn(a))
}

pub fn run_sock(ctx: &mut RunCtx) -> RunResult {
    let ch = std::mem::replace(&mut ctx.ch, simcore::Choices::replay(Vec::new()));
    let trace = std::mem::take(&mut ctx.trace);
    let sim = Sim::new(ch, trace, (0, 1), false);
    let r = std::panic::catch_unwind(std::panic::AssertUnwindSafe(|| drive(&sim)));
    sim.teardown();
    let (ch, trace, faults, probes) = sim.take_results();
    ctx.ch = ch;
    ctx.trace = trace;
    for (k, v) in faults {
        *ctx.faults.entry(k).or_insert(0) += v;
    }
    for (k, v) in probes {
        if k.starts_with("oracle-") {
            ctx.nontrivial = true;
            ctx.oracle_evals += v;
        }
        *ctx.probes.entry(k).or_insert(0) += v;
    }
    match r {
        Ok(Ok(())) => Ok(()),
        Ok(Err((c, d))) => ctx.violate(&c, d),
        Err(p) => std::panic::resume_unwind(p),
    }
}

type R2 = Result<(), (String, String)>;

fn drive(sim: &Sim) -> R2 {
    let with_echo = sim.chance(1, 2);
    let under = Arc::new(SimUnderlay { st: Mutex::new(UnderlayState { inbox: VecDeque::new(), rx_waker: None, sent: Vec::new(), send_mode: SendMode::Ok, spurious: false, send_attempts: 0 }) });
    let rec = Arc::new(Recorder { seen: Mutex::new(Vec::new()) });
    // further application-side receivers of the same stack (held weakly by the handler): some are dropped during the run
    let n_extra = sim.idx(3);
    let mut extras: Vec<Option<Arc<Recorder>>> = (0..n_extra).map(|_| Some(Arc::new(Recorder { seen: Mutex::new(Vec::new()) }))).collect();
    let rec_pos = sim.idx(n_extra + 1);
    let mut receivers: Vec<Arc<dyn ScmpErrorReceiver>> = extras.iter().flatten().map(|e| e.clone() as Arc<dyn ScmpErrorReceiver>).collect();
    receivers.insert(rec_pos, rec.clone());
    let local = ScionSocketIpAddr::new(ia(0x20), IpAddr::V4(Ipv4Addr::new(10, 0, 0, 2)), 4000);
    let sock = Arc::new(path_unaware_udp_socket(under.clone(), local, &receivers, with_echo));
    drop(receivers);
    sim.log(format!("sock scenario echo-handler={with_echo}"));
    // packets come from a remote host over a two-hop path
    let remote: sciparse::address::addr::ScionAddr = ScionIpAddr::new(ia(0x10), IpAddr::V4(Ipv4Addr::new(10, 0, 0, 1))).into();
    let me: sciparse::address::addr::ScionAddr = ScionIpAddr::new(ia(0x20), IpAddr::V4(Ipv4Addr::new(10, 0, 0, 2))).into();
    let tctx = TestPathBuilder::new(remote, me).using_info_timestamp(1_700_000_000).up().add_hop(0, 1).add_hop(2, 0).build(1_700_000_001);

    let got: Arc<Mutex<Vec<(u32, String)>>> = Arc::new(Mutex::new(Vec::new()));
    let spawn_receiver = |sim: &Sim| -> ActorId {
        let (sock, got) = (sock.clone(), got.clone());
        sim.spawn("receiver", async move {
            let mut buf = vec![0u8; 2048];
            loop {
                match sock.recv_from(&mut buf).await {
                    Ok((n, src)) => {
                        let tag = if n >= 4 { u32::from_be_bytes([buf[0], buf[1], buf[2], buf[3]]) } else { u32::MAX };
                        got.lock().unwrap().push((tag, format!("{src}")));
                    }
                    Err(_) => break,
                }
            }
        })
    };
    let mut receiver = spawn_receiver(sim);
    let mut sent_tags: Vec<u32> = Vec::new();
    let mut expected_errors: Vec<String> = Vec::new();
    let mut echo_requests_total = 0usize;
    let mut next_tag = 1u32;
    let enc = |p: ScionRawPacket| p.try_encode_to_owned_view().ok().map(|v| v.as_slice().to_vec());
    let n_ops = 5 + sim.idx(30);
    for _ in 0..n_ops {
        let op = sim.draw(15);
        if op == 14 {
            // an application component that listened for SCMP errors goes away
            let alive: Vec<usize> = (0..extras.len()).filter(|k| extras[*k].is_some()).collect();
            if !alive.is_empty() {
                let k = alive[sim.idx(alive.len())];
                extras[k] = None;
                sim.fault("scmp-receiver-dropped");
                sim.log(format!("receiver #{k} dropped"));
            }
            continue;
        }
        let mut inject: Option<Vec<u8>> = None;
        match op {
            0..=3 => {
                let size = [4usize, 5, 64, 1200][sim.idx(4)];
                let mut payload = vec![0u8; size];
                payload[..4].copy_from_slice(&next_tag.to_be_bytes());
                sim.log(format!("inject udp tag={next_tag} len={size}"));
                sent_tags.push(next_tag);
                next_tag += 1;
                inject = enc(tctx.scion_packet_udp(&payload, 5000, 4000).into());
            }
            4..=6 => {
                let quote = vec![0x45u8; [0usize, 8, 100][sim.idx(3)]];
                let (name, e): (&str, ScmpErrorMessage) = match sim.draw(5) {
                    0 => ("dest-unreachable", ScmpDestinationUnreachable::new(ScmpDestinationUnreachableCode::AddressUnreachable, quote).into()),
                    1 => ("packet-too-big", ScmpPacketTooBig::new(1280, quote).into()),
                    2 => ("parameter-problem", ScmpParameterProblem::new(ScmpParameterProblemCode::InvalidPath, 0, quote).into()),
                    3 => ("ext-if-down", ScmpExternalInterfaceDown::new(ia(0x10), 1, quote).into()),
                    _ => ("int-conn-down", ScmpInternalConnectivityDown::new(ia(0x10), 1, 2, quote).into()),
                };
                sim.log(format!("inject scmp-error {name}"));
                sim.fault("scmp-error-between-datagrams");
                expected_errors.push(name.to_string());
                inject = enc(tctx.scion_packet_scmp(e.into()).into());
            }
            7 => {
                sim.log("inject echo-request".into());
                echo_requests_total += 1;
                inject = enc(tctx.scion_packet_scmp(ScmpMessage::EchoRequest(ScmpEchoRequest::new(7, next_tag as u16, vec![1, 2, 3]))).into());
            }
            8 => {
                sim.log("inject echo-reply / traceroute-request".into());
                let m = if sim.chance(1, 2) { ScmpMessage::EchoReply(ScmpEchoReply::new(7, 1, vec![9])) } else { ScmpMessage::TracerouteRequest(ScmpTracerouteRequest::new(1, 2)) };
                inject = enc(tctx.scion_packet_scmp(m).into());
            }
            9 => {
                sim.log("inject malformed scmp / other protocol".into());
                sim.fault("malformed-packet");
                let proto = if sim.chance(1, 2) { ProtocolNumber::Scmp } else { ProtocolNumber::Other(200) };
                let junk = vec![0xEEu8; sim.idx(6)];
                inject = enc(ScionRawPacket::new(remote, me, tctx.data_plane_path.clone(), proto, junk));
            }
            10 => {
                let m = [SendMode::Ok, SendMode::WouldBlock, SendMode::Closed][sim.idx(3)];
                sim.log(format!("underlay send mode {m:?}"));
                if m != SendMode::Ok {
                    sim.fault("reply-send-fails");
                }
                under.st.lock().unwrap().send_mode = m;
            }
            11 => {
                sim.log("spurious wake-up".into());
                sim.fault("spurious-wakeup");
                let w = {
                    let mut st = under.st.lock().unwrap();
                    st.spurious = true;
                    st.rx_waker.take()
                };
                if let Some(w) = w {
                    w.wake();
                }
            }
            _ => {
                sim.log("cancel receiver and start a new one".into());
                sim.fault("receiver-cancelled");
                sim.cancel(receiver);
                if !sim.settle(200) {
                    return Err(("harness/step-budget".into(), "settle".into()));
                }
                receiver = spawn_receiver(sim);
            }
        }
        if let Some(b) = inject {
            let w = {
                let mut st = under.st.lock().unwrap();
                st.inbox.push_back(b);
                st.rx_waker.take()
            };
            if let Some(w) = w {
                w.wake();
            }
        }
        // the receiver may or may not run before the next packet arrives
        if sim.chance(2, 3) && !sim.settle(500) {
            return Err(("harness/step-budget".into(), "settle".into()));
        }
        if let Some((id, name, msg)) = sim.take_panic() {
            return Err(("panic".into(), format!("actor {name}#{id}: {msg}")));
        }
    }
    if !sim.settle(2000) {
        return Err(("harness/step-budget".into(), "settle".into()));
    }
    if let Some((id, name, msg)) = sim.take_panic() {
        return Err(("panic".into(), format!("actor {name}#{id}: {msg}")));
    }
    // ---- oracles
    sim.probe("oracle-socket");
    let got = got.lock().unwrap().clone();
    for (t, s) in &got {
        sim.log(format!("recv_from -> tag={t} from {s}"));
    }
    let got_tags: Vec<u32> = got.iter().map(|g| g.0).collect();
    if got_tags != sent_tags {
        return Err(("C14/socket-datagram-delivery-disturbed".into(), format!("datagrams injected {sent_tags:?}, recv_from returned {got_tags:?} (exactly once and in order is required, whatever SCMP traffic, cancellations and wake-ups are interleaved)")));
    }
    if !sent_tags.is_empty() {
        sim.probe("socket-datagrams-delivered");
    }
    let seen = rec.seen.lock().unwrap().clone();
    if seen != expected_errors {
        return Err(("C14/socket-scmp-errors-not-reported-exactly-once".into(), format!("SCMP errors injected {expected_errors:?}, reported to the registered receiver {seen:?}")));
    }
    for (k, e) in extras.iter().enumerate() {
        if let Some(e) = e {
            let seen = e.seen.lock().unwrap().clone();
            if seen != expected_errors {
                return Err(("C14/socket-scmp-errors-not-reported-exactly-once".into(), format!("SCMP errors injected {expected_errors:?}, reported to live receiver #{k} {seen:?}")));
            }
        }
    }
    if !expected_errors.is_empty() {
        sim.probe("socket-errors-reported");
    }
    let st = under.st.lock().unwrap();
    // replies: only echo replies, only with the echo handler installed, at most one per echo request
    for p in &st.sent {
        let h = crate::refrouter::parse_hdr(p);
        let ok = h.map(|h| p[4] == 202 && p.get(h.hdr_len).copied() == Some(129)).unwrap_or(false);
        if !ok {
            return Err(("C14/socket-unexpected-reply".into(), format!("the socket sent a packet that is not an echo reply ({} bytes)", p.len())));
        }
    }
    if !with_echo && (st.send_attempts > 0) {
        return Err(("C14/socket-unexpected-reply".into(), format!("{} send attempts without an echo handler", st.send_attempts)));
    }
    if with_echo {
        if st.send_attempts != echo_requests_total {
            return Err(("C14/socket-reply-count".into(), format!("{} echo requests, {} reply attempts (errors, malformed and other SCMP must not be answered; every echo request exactly once)", echo_requests_total, st.send_attempts)));
        }
        if !st.sent.is_empty() {
            sim.probe("socket-echo-replied");
        }
    }
    Ok(())
}
