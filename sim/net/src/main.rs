//! verif-net — pocketscion's control plane and data plane under a simulator-owned link layer, against an
//! independent reference router (C13, C01, C11).

mod c14;
mod gw;
mod refrouter;
mod sock;
mod topo;

use std::collections::BTreeMap;

use pocketscion::network::scion::routing::spec::SpecRoutingLogic;
use pocketscion::network::scion::routing::{AsRoutingAction, LocalAsRoutingAction, ScionNetworkTime};
use pocketscion::network::scion::segment::registry::SegmentRegistry;
use pocketscion::network::scion::simulator::ScionNetworkSim;
use sciparse::address::ip_addr::ScionIpAddr;
use sciparse::core::model::Model;
use sciparse::core::view::View;
use sciparse::dataplane_path::view::ScionDpPathViewExt;
use sciparse::identifier::isd_asn::IsdAsn;
use sciparse::packet::model::ScionRawPacket;
use sciparse::packet::view::ScionRawPacketView;
use sciparse::path::combinator::combine;
use sciparse::path::ScionPath;
use sciparse::payload::scmp::model::ScmpErrorMessage;
use sciparse::payload::ProtocolNumber;
use simcore::{Budget, Engine, RunCtx, RunResult, Tier};

use refrouter::Verdict;
use topo::World;

pub const T0: u32 = 1_700_000_000;

thread_local! {
    /// C11 only: the "real" walk uses the library-level router (sciparse advance + HopMacValidator) instead of pocketscion's.
    static USE_LIB_ROUTER: std::cell::Cell<bool> = const { std::cell::Cell::new(false) };
}

/// Final verdict of a walk, in the coarse classes the property names.
#[derive(Clone, Debug, PartialEq, Eq)]
pub enum Final {
    Delivered(usize),
    LinkDown(usize, u16),
    /// refused: SCMP error class (or "drop" for a silent drop)
    Refused(usize, String),
    /// handed to the router-alert machinery (judged under C14)
    Alert(usize),
    /// the reference declares the behaviour unspecified
    Unspecified(usize, &'static str),
    /// no verdict within the step budget
    Exhausted,
    /// the simulator itself failed (anyhow error)
    Error(String),
}

impl Final {
    fn class(&self) -> String {
        match self {
            Final::Delivered(a) => format!("delivered@{a}"),
            Final::LinkDown(a, i) => format!("link-down@{a}#{i}"),
            Final::Refused(_, _) => "refused".into(),
            Final::Alert(_) => "alert".into(),
            Final::Unspecified(_, _) => "unspecified".into(),
            Final::Exhausted => "exhausted".into(),
            Final::Error(_) => "error".into(),
        }
    }
}

#[derive(Clone, Debug)]
pub enum Fault {
    /// flip one bit of the header before the packet enters the AS of step `at`
    BitFlip { at: usize, pos_permille: u64, bit: u8 },
    /// the packet spends `secs` in flight before step `at`
    Delay { at: usize, secs: u32 },
    /// the link the packet is about to cross goes down just before step `at` forwards it
    EgressDown { at: usize },
    /// delivered to a wrong AS / interface before step `at`
    Misdeliver { at: usize, to: usize, ifid: u16 },
    /// flip bit `bit` of the byte at absolute offset `off` before step `at`
    RawFlip { at: usize, off: usize, bit: u8 },
}

#[derive(Clone, Debug)]
pub struct Step {
    pub at: usize,
    pub ing: u16,
    pub out: String,
    pub ok: bool,
    pub bytes_before: Vec<u8>,
    pub bytes_after: Vec<u8>,
}

pub struct WalkOut {
    pub fin: Final,
    pub steps: Vec<Step>,
}

fn real_step(w: &mut World, at: usize, ing: u16, now: u32, b: &mut [u8]) -> Result<(Verdict, Option<String>), String> {
    let ia = w.m.isd_asn(at);
    let (view, rest) = match ScionRawPacketView::try_from_mut_slice(b) {
        Ok(x) => x,
        Err(_) => return Ok((Verdict::Drop, Some("unparsable".into()))),
    };
    let _ = rest;
    let mut it = ScionNetworkSim::iter::<SpecRoutingLogic>(&w.real, view, ScionNetworkTime::from_timestamp_secs(now), ia, ing, false).map_err(|e| format!("iter: {e}"))?;
    let out = match it.next() {
        Some(Ok(o)) => o,
        Some(Err(e)) => return Err(format!("step: {e}")),
        None => return Err("iterator ended without a step".into()),
    };
    Ok(match out.action {
        AsRoutingAction::ForwardNextHop { egress_interface_id } => (Verdict::Forward(egress_interface_id), None),
        AsRoutingAction::Drop => (Verdict::Drop, None),
        AsRoutingAction::Local(LocalAsRoutingAction::ForwardLocal) => (Verdict::Deliver, None),
        AsRoutingAction::Local(LocalAsRoutingAction::IngressSCMPHandleRequest { .. }) | AsRoutingAction::Local(LocalAsRoutingAction::EgressSCMPHandleRequest { .. }) => (Verdict::Unspecified("router-alert"), None),
        AsRoutingAction::Local(LocalAsRoutingAction::ForwardExternal { .. }) => return Err("forward-external in a topology without external ASes".into()),
        AsRoutingAction::Local(LocalAsRoutingAction::SendSCMPErrorResponse(e)) => match e {
            ScmpErrorMessage::ExternalInterfaceDown(m) => {
                if m.isd_asn != ia {
                    (Verdict::Reject("interface-down-reported-for-another-as"), Some(format!("{}", m.isd_asn)))
                } else {
                    (Verdict::IfDown(m.interface_id), None)
                }
            }
            ScmpErrorMessage::ParameterProblem(p) => (Verdict::Reject("parameter-problem"), Some(format!("{:?}", p.code))),
            ScmpErrorMessage::InternalConnectivityDown(_) => (Verdict::Reject("internal-connectivity-down"), None),
            ScmpErrorMessage::DestinationUnreachable(_) => (Verdict::Reject("destination-unreachable"), None),
            ScmpErrorMessage::PacketTooBig(_) => (Verdict::Reject("packet-too-big"), None),
        },
    })
}

/// A minimal router assembled from sciparse's public pieces only: `advance_ingress_with_validator` /
/// `advance_egress_with_validator` with the library's own `HopMacValidator` (no interface or expiry checks).
fn lib_step(w: &World, at: usize, ing: u16, b: &mut [u8]) -> Verdict {
    use sciparse::dataplane_path::standard::routing::{EgressValidateResult, HopMacValidator, IngressAdvanceAction, IngressValidateResult};
    use sciparse::dataplane_path::view::ScionDpPathViewRefMut;
    let key = w.m.ases[at].key;
    let Ok((view, _)) = ScionRawPacketView::try_from_mut_slice(b) else { return Verdict::Drop };
    let ScionDpPathViewRefMut::Standard(path) = view.header_mut().path_mut() else { return Verdict::Unspecified("not a standard path") };
    let adv = match path.advance_ingress_with_validator(HopMacValidator { key }, ing == 0) {
        Err(_) => return Verdict::Drop,
        Ok(IngressValidateResult::ValidationFailed(..)) => return Verdict::Reject("invalid-mac"),
        Ok(IngressValidateResult::Ok(o)) => o,
    };
    match adv.action {
        IngressAdvanceAction::ForwardLocal => Verdict::Deliver,
        IngressAdvanceAction::ContinueEgress { .. } => match path.advance_egress_with_validator(HopMacValidator { key }) {
            Err(_) => Verdict::Drop,
            Ok(EgressValidateResult::ValidationFailed(..)) => Verdict::Reject("invalid-mac"),
            Ok(EgressValidateResult::Ok(o)) => Verdict::Forward(o.egress_interface),
        },
    }
}

/// Walk a packet AS by AS.  `which` = true: the real routers; false: the reference routers.  Both walks apply the
/// same fault plan at the same step indices.
pub fn walk(w: &mut World, which_real: bool, pkt: &[u8], start: usize, start_ing: u16, now0: u32, plan: &[Fault], max_steps: usize) -> WalkOut {
    let mut b = pkt.to_vec();
    let mut at = start;
    let mut ing = start_ing;
    let mut now = now0;
    let mut steps: Vec<Step> = Vec::new();
    let mut downed: Vec<(usize, u16)> = Vec::new();
    let mut m = w.m.clone();
    let mut fin = Final::Exhausted;
    for k in 0..max_steps {
        let mut egress_down = false;
        for f in plan {
            match f {
                Fault::BitFlip { at: s, pos_permille, bit } if *s == k => {
                    // the corruption hits what the property talks about: the ISD-AS fields of the address header
                    // and the path header (other header fields - version, lengths, address types - are outside
                    // the reference's model)
                    if let Some(h) = refrouter::parse_hdr(&b) {
                        let span = 16 + (h.hdr_len - h.path_off);
                        if span > 16 {
                            let r = *pos_permille as usize * span / 1000;
                            let pos = if r < 16 { 12 + r } else { h.path_off + (r - 16) };
                            if pos < b.len() {
                                b[pos] ^= 1 << (bit % 8);
                            }
                        }
                    }
                }
                Fault::RawFlip { at: s, off, bit } if *s == k => {
                    if *off < b.len() {
                        b[*off] ^= 1 << (bit % 8);
                    }
                }
                Fault::Delay { at: s, secs } if *s == k => now = now.saturating_add(*secs),
                Fault::EgressDown { at: s } if *s == k => egress_down = true,
                Fault::Misdeliver { at: s, to, ifid } if *s == k => {
                    at = *to % m.ases.len();
                    ing = *ifid;
                }
                _ => {}
            }
        }
        if egress_down {
            // take down the link this packet would leave on, as the reference sees it (same link in both walks:
            // determined from the bytes before the step, by the reference's own reading)
            let mut probe = b.clone();
            if let Verdict::Forward(eg) = refrouter::step(&m, at, ing, now, &mut probe) {
                m.set_up(at, eg, false);
                if let Some(l) = w.real.mut_scion_link(&w.m.isd_asn(at), eg) {
                    l.set_is_up(false);
                }
                downed.push((at, eg));
            }
        }
        let bytes_before = b.clone();
        let (v, note) = if USE_LIB_ROUTER.with(|c| c.get()) && which_real {
            (lib_step(w, at, ing, &mut b), None)
        } else if which_real {
            match real_step(w, at, ing, now, &mut b) {
                Ok(x) => x,
                Err(e) => {
                    fin = Final::Error(e);
                    break;
                }
            }
        } else {
            (refrouter::step(&m, at, ing, now, &mut b), None)
        };
        steps.push(Step { at, ing, out: format!("{v:?}{}", note.map(|n| format!("[{n}]")).unwrap_or_default()), ok: matches!(v, Verdict::Forward(_) | Verdict::Deliver), bytes_before, bytes_after: b.clone() });
        match v {
            Verdict::Forward(eg) => match m.ases[at].ifs.get(&eg) {
                Some(f) => {
                    ing = f.nbr_if;
                    at = f.nbr;
                }
                None => {
                    fin = Final::Error(format!("forwarded over {}#{eg}, which is not a link of the topology", m.name(at)));
                    break;
                }
            },
            Verdict::Deliver => {
                fin = Final::Delivered(at);
                break;
            }
            Verdict::IfDown(i) => {
                fin = Final::LinkDown(at, i);
                break;
            }
            Verdict::Reject(c) => {
                fin = Final::Refused(at, c.to_string());
                break;
            }
            Verdict::Drop => {
                fin = Final::Refused(at, "drop".into());
                break;
            }
            Verdict::Unspecified(why) => {
                fin = if why == "router-alert" { Final::Alert(at) } else { Final::Unspecified(at, why) };
                break;
            }
        }
    }
    for (a, i) in downed {
        if let Some(l) = w.real.mut_scion_link(&w.m.isd_asn(a), i) {
            l.set_is_up(true);
        }
    }
    WalkOut { fin, steps }
}

fn addr(ia: IsdAsn, host: u8) -> sciparse::address::addr::ScionAddr {
    ScionIpAddr::new(ia, std::net::IpAddr::V4(std::net::Ipv4Addr::new(10, 0, 0, host))).into()
}

fn packet_for(p: &ScionPath, payload: &[u8]) -> Option<Vec<u8>> {
    let pkt = ScionRawPacket::new(addr(p.src_ia(), 1), addr(p.dst_ia(), 2), p.dp_path().to_model(), ProtocolNumber::Other(253), payload.to_vec());
    pkt.try_encode_to_owned_view().ok().map(|v| v.as_slice().to_vec())
}

/// The reply to a delivered packet: source and destination swapped, path reversed by the SDK.
fn reply_packet(delivered: &[u8]) -> Result<Vec<u8>, String> {
    let (v, _) = ScionRawPacketView::try_from_slice(delivered).map_err(|e| format!("{e:?}"))?;
    let rp = v.header().path().to_model().try_into_reversed().map_err(|(_, e)| format!("{e:?}"))?;
    let h = refrouter::parse_hdr(delivered).ok_or("header")?;
    let pkt = ScionRawPacket::new(addr(IsdAsn::from_u64(h.dst_ia), 2), addr(IsdAsn::from_u64(h.src_ia), 1), rp, ProtocolNumber::Other(253), b"reply".to_vec());
    pkt.try_encode_to_owned_view().map(|v| v.as_slice().to_vec()).map_err(|e| format!("{e:?}"))
}

pub fn shape(p: &ScionPath) -> String {
    let b = match packet_for(p, b"") {
        Some(b) => b,
        None => return "unencodable".into(),
    };
    let Some(h) = refrouter::parse_hdr(&b) else { return "?".into() };
    if h.path_type != 1 {
        return format!("type{}", h.path_type);
    }
    let Some(sp) = refrouter::StdPath::parse(&b, h.path_off, h.hdr_len) else { return "?".into() };
    let mut s = String::new();
    for i in 0..sp.n_inf {
        let f = sp.info(&b, i);
        s.push_str(&format!("[{}{}{}]", if f.cons { "C" } else { "c" }, if f.peer { "P" } else { "" }, sp.seg_len[i]));
    }
    s
}

/// Paths the SDK offers between two ASes: registry → lister plan → segments (real MAC chaining, signing) → combinator.
pub fn offered(w: &World, reg: &SegmentRegistry, src: usize, dst: usize, ts: u32, seg_id: u16, exp: u8, stock: bool) -> Result<Vec<ScionPath>, String> {
    offered_mixed(w, reg, src, dst, ts, seg_id, exp, stock, 0)
}

/// Like `offered`; with `core_delta > 0` the core segments were created (and signed) `core_delta` seconds before the
/// up/down segments, with another SegID - segments of one lookup are of different ages in the field.
#[allow(clippy::too_many_arguments)]
pub fn offered_mixed(w: &World, reg: &SegmentRegistry, src: usize, dst: usize, ts: u32, seg_id: u16, exp: u8, stock: bool, core_delta: u32) -> Result<Vec<ScionPath>, String> {
    let (s, d) = (w.m.isd_asn(src), w.m.isd_asn(dst));
    let when = chrono::DateTime::<chrono::Utc>::from_timestamp(ts as i64, 0).ok_or("timestamp")?;
    if stock {
        return reg.paths(s, d, when, &w.real).map_err(|e| format!("{e}"));
    }
    let segs = reg.endhost_list_segments(s, s, d).map_err(|e| format!("{e}"))?;
    let ps = segs.into_path_segments(&w.real, when, seg_id, exp).map_err(|e| format!("{e}"))?;
    let non_cores = ps.iter_non_cores().cloned().collect();
    let cores = if core_delta == 0 {
        ps.iter_cores().cloned().collect()
    } else {
        let older = chrono::DateTime::<chrono::Utc>::from_timestamp(ts as i64 - core_delta as i64, 0).ok_or("timestamp")?;
        let segs2 = reg.endhost_list_segments(s, s, d).map_err(|e| format!("{e}"))?;
        let ps2 = segs2.into_path_segments(&w.real, older, seg_id.wrapping_mul(31).wrapping_add(7), exp).map_err(|e| format!("{e}"))?;
        ps2.iter_cores().cloned().collect()
    };
    Ok(combine(s, d, cores, non_cores))
}

/// The (AS, ingress, egress) sequence a path's metadata announces.
fn metadata_hops(w: &World, p: &ScionPath) -> Option<Vec<(usize, u16, u16)>> {
    let ifs = p.metadata()?.interfaces.as_ref()?;
    let v: Vec<(u64, u16)> = ifs.iter().map(|i| (i.interface.isd_asn.to_u64(), i.interface.id)).collect();
    if v.is_empty() || v.len() % 2 != 0 {
        return None;
    }
    let mut out = Vec::new();
    out.push((w.m.idx_of(v[0].0)?, 0, v[0].1));
    let mut k = 1;
    while k + 1 < v.len() {
        if v[k].0 != v[k + 1].0 {
            return None;
        }
        out.push((w.m.idx_of(v[k].0)?, v[k].1, v[k + 1].1));
        k += 2;
    }
    let last = v[v.len() - 1];
    out.push((w.m.idx_of(last.0)?, last.1, 0));
    Some(out)
}

pub struct NetEngine;

pub fn classify(clause: &str, detail: &str, _trace: &[String]) -> Option<&'static str> {
    match clause {
        "C13/verdict-differs" => {
            // pocketscion's router has no peering support at all (it ignores the peering flag): every disagreement
            // on a packet whose info fields carry the flag belongs to that one finding
            if detail.contains("[peering-flag]") {
                Some("C13/peering-not-supported")
            } else if detail.contains("one-hop packet") && detail.contains("[one-hop path that must be refused]") {
                Some("C13/one-hop-checks-skipped")
            } else if detail.contains("[transits its destination AS]") {
                // the SDK's router carries the packet on through its destination AS where the reference refuses it:
                // whatever happens to it further on (delivery on the second visit, a down link, ...) is the same finding
                Some("C13/over-acceptance/transit-through-destination-as")
            } else {
                None
            }
        }
        "C14/bad-checksum" => Some("C14/checksum-covers-only-the-pseudo-header"),
        "C11/failure-changes-path-bytes" => Some("C11/refused-packet-leaves-with-changed-path-bytes"),
        "C13/simulator-error" if detail.contains("one-hop packet") && detail.contains("no link for") => Some("C13/one-hop-checks-skipped"),
        "C01/offered-path-not-forwardable" => {
            if detail.contains("[peering]") {
                Some("C01/peering-path-fails-authentication")
            } else {
                None
            }
        }
        _ => None,
    }
}

fn describe_steps(w: &World, o: &WalkOut) -> String {
    o.steps.iter().map(|s| format!("{}#{}→{}", w.m.name(s.at), s.ing, s.out)).collect::<Vec<_>>().join(" ; ")
}

fn is_shortcut_or_peering(p_shape: &str, b: &[u8]) -> &'static str {
    if p_shape.contains('P') {
        return " [peering]";
    }
    // shortcut: two segments "[cN][CM]" whose cross-over AS is not a core; detected from the hop fields: at the
    // cross-over the first hop field of the second segment has a non-zero construction ingress
    if let Some(h) = refrouter::parse_hdr(b) {
        if let Some(sp) = refrouter::StdPath::parse(b, h.path_off, h.hdr_len) {
            if sp.n_inf == 2 {
                let first_of_second = sp.hop(b, sp.seg_len[0]);
                let last_of_first = sp.hop(b, sp.seg_len[0] - 1);
                let f0 = sp.info(b, 0);
                let f1 = sp.info(b, 1);
                let a = if f0.cons { last_of_first.cons_eg } else { last_of_first.cons_in };
                let c = if f1.cons { first_of_second.cons_in } else { first_of_second.cons_eg };
                if a != 0 || c != 0 {
                    return " [shortcut]";
                }
            }
        }
    }
    ""
}

/// Pointer position (CurrINF, CurrHF) and hop count of a standard path, by the simulator's own decoder.
fn pointers(b: &[u8]) -> Option<(usize, usize, usize)> {
    let h = refrouter::parse_hdr(b)?;
    if h.path_type != 1 {
        return None;
    }
    let sp = refrouter::StdPath::parse(b, h.path_off, h.hdr_len)?;
    Some((sp.curr_inf, sp.curr_hf, sp.n_hf))
}

/// C11, per real AS step: a refused packet's path bytes are untouched; an accepted one moved strictly forward; the
/// number of accepted steps never exceeds the hop-field count.
fn check_steps(ctx: &mut RunCtx, w: &World, what: &str, o: &WalkOut) -> RunResult {
    let mut accepted = 0usize;
    let mut n_hf = 0usize;
    for (k, st) in o.steps.iter().enumerate() {
        ctx.checked();
        let (hb, ha) = (refrouter::parse_hdr(&st.bytes_before), refrouter::parse_hdr(&st.bytes_after));
        if let (Some(hb), Some(_)) = (&hb, &ha) {
            if hb.path_type == 1 {
                if let Some((_, _, n)) = pointers(&st.bytes_before) {
                    n_hf = n_hf.max(n);
                }
            }
        }
        if st.out.starts_with("Unspecified") {
            // handed to the router-alert machinery (or outside the library router's scope): neither refused nor forwarded
            continue;
        }
        if !st.ok {
            if let Some(hb) = &hb {
                let (pb, pa) = (&st.bytes_before[hb.path_off..hb.hdr_len], st.bytes_after.get(hb.path_off..hb.hdr_len));
                if Some(pb) != pa {
                    let diff: Vec<usize> = pa.map(|pa| (0..pb.len()).filter(|i| pb[*i] != pa[*i]).collect()).unwrap_or_default();
                    ctx.probe("refusal-checked-for-atomicity");
                    return ctx.violate(
                        "C11/failure-changes-path-bytes",
                        format!("{what}: step {k} at {}#{} answered {} and changed path bytes at offsets {diff:?} (relative to the path header)", w.m.name(st.at), st.ing, st.out),
                    );
                }
                ctx.probe("refusal-checked-for-atomicity");
            }
        } else {
            accepted += 1;
            if let (Some((_, jb, _)), Some((_, ja, _))) = (pointers(&st.bytes_before), pointers(&st.bytes_after)) {
                let delivered = st.out.starts_with("Deliver");
                if !(ja > jb || delivered) {
                    return ctx.violate("C11/accepted-step-does-not-advance", format!("{what}: step {k} at {} accepted the packet but the current hop pointer went {jb} -> {ja}", w.m.name(st.at)));
                }
                if ja < jb {
                    return ctx.violate("C11/pointer-moved-backwards", format!("{what}: step {k} at {}: {jb} -> {ja}", w.m.name(st.at)));
                }
            }
        }
    }
    if n_hf > 0 && accepted > n_hf {
        return ctx.violate("C11/more-accepted-steps-than-hop-fields", format!("{what}: {accepted} accepted AS steps on a path of {n_hf} hop fields"));
    }
    Ok(())
}

fn run_c11(ctx: &mut RunCtx) -> RunResult {
    let mut w = topo::draw(ctx);
    let reg = SegmentRegistry::from_topology(&w.real);
    let n = w.m.ases.len();
    let ts = T0 - ctx.ch.draw(3000) as u32;
    let seg_id = ctx.ch.draw(65536) as u16;
    let exp = [255u8, 63, 1][ctx.ch.idx(3)];
    let life = ((exp as u64 + 1) * 675 / 2) as u32;
    let now = ts + 1 + ctx.ch.draw((life - 3) as u64) as u32;
    ctx.log(format!("c11 beacons ts=T0-{} seg_id={seg_id} exp={exp} now=ts+{}", T0 - ts, now - ts));
    for _ in 0..(1 + ctx.ch.idx(3)) {
        let (src, dst) = (ctx.ch.idx(n), ctx.ch.idx(n));
        if src == dst {
            continue;
        }
        let paths = offered(&w, &reg, src, dst, ts, seg_id, exp, false).unwrap_or_default();
        for p in paths.into_iter().take(5) {
            let Some(pkt) = packet_for(&p, b"c11") else { continue };
            let sh = shape(&p);
            if sh.contains('P') {
                continue; // peering paths: separate known findings (C01/C13)
            }
            // (1) with the right keys the authentic path verifies at every hop, forwards and backwards
            let fwd = walk(&mut w, true, &pkt, src, 0, now, &[], 200);
            ctx.log(format!("c11 path {}->{} {sh}: {}", w.m.name(src), w.m.name(dst), fwd.fin.class()));
            check_steps(ctx, &w, "authentic path", &fwd)?;
            if fwd.fin != Final::Delivered(dst) {
                return ctx.violate("C11/authentic-path-does-not-verify", format!("path {sh} {}->{}: {:?}; steps: {}", w.m.name(src), w.m.name(dst), fwd.fin, describe_steps(&w, &fwd)));
            }
            ctx.probe("authentic-path-verified");
            {
                USE_LIB_ROUTER.with(|c| c.set(true));
                let lf = walk(&mut w, true, &pkt, src, 0, now, &[], 200);
                USE_LIB_ROUTER.with(|c| c.set(false));
                check_steps(ctx, &w, "authentic path (library router)", &lf)?;
                if lf.fin != Final::Delivered(dst) {
                    return ctx.violate("C11/authentic-path-does-not-verify", format!("path {sh} {}->{} under sciparse's HopMacValidator: {:?}; steps: {}", w.m.name(src), w.m.name(dst), lf.fin, describe_steps(&w, &lf)));
                }
            }
            let delivered = fwd.steps.last().map(|s| s.bytes_after.clone()).unwrap_or_default();
            if let Ok(rpkt) = reply_packet(&delivered) {
                let back = walk(&mut w, true, &rpkt, dst, 0, now, &[], 200);
                check_steps(ctx, &w, "reversed path", &back)?;
                if back.fin != Final::Delivered(src) {
                    return ctx.violate("C11/authentic-path-does-not-verify", format!("reverse of path {sh} {}->{}: {:?}; steps: {}", w.m.name(src), w.m.name(dst), back.fin, describe_steps(&w, &back)));
                }
                ctx.probe("reverse-path-verified");
            }
            // (1b) a copy of the packet shows up again at an AS it already passed (replay / mis-delivery): however the
            // routers answer, no step may go backwards and the accepted steps stay within the hop-field count
            if fwd.steps.len() >= 2 && ctx.ch.chance(1, 2) {
                let k = 1 + ctx.ch.idx(fwd.steps.len() - 1);
                let j = ctx.ch.idx(k);
                let plan = vec![Fault::Misdeliver { at: k, to: fwd.steps[j].at, ifid: fwd.steps[j].ing }];
                ctx.fault("replayed-at-earlier-as");
                let r = walk(&mut w, true, &pkt, src, 0, now, &plan, 200);
                check_steps(ctx, &w, "packet replayed at an earlier AS", &r)?;
            }
            // (2) tampering in flight with an authenticated field of a hop field that is still to be verified
            for _ in 0..(1 + ctx.ch.idx(4)) {
                let k = ctx.ch.idx(fwd.steps.len());
                let at_bytes = if k == 0 { pkt.clone() } else { fwd.steps[k - 1].bytes_after.clone() };
                let Some(h) = refrouter::parse_hdr(&at_bytes) else { continue };
                let Some(sp) = refrouter::StdPath::parse(&at_bytes, h.path_off, h.hdr_len) else { continue };
                // choose the field
                let (off, what, owner_hop): (usize, String, usize) = match ctx.ch.draw(3) {
                    0 => {
                        // a hop field not yet processed: ExpTime, ConsIngress, ConsEgress or MAC
                        let j = sp.curr_hf + ctx.ch.idx(sp.n_hf - sp.curr_hf);
                        let o = 1 + ctx.ch.idx(11);
                        (sp.hop_off(j) + o, format!("hop field {j} byte {o}"), j)
                    }
                    1 => {
                        // SegID of the current or a later segment
                        let i = sp.curr_inf + ctx.ch.idx(sp.n_inf - sp.curr_inf);
                        let first_unverified = sp.curr_hf.max(sp.seg_start(i));
                        (sp.info_off(i) + 2 + ctx.ch.idx(2), format!("SegID of segment {i}"), first_unverified)
                    }
                    _ => {
                        let i = sp.curr_inf + ctx.ch.idx(sp.n_inf - sp.curr_inf);
                        let first_unverified = sp.curr_hf.max(sp.seg_start(i));
                        (sp.info_off(i) + 4 + ctx.ch.idx(4), format!("timestamp of segment {i}"), first_unverified)
                    }
                };
                let bit = ctx.ch.draw(8) as u8;
                let second = ctx.ch.chance(1, 4);
                let mut plan = vec![Fault::RawFlip { at: k, off, bit }];
                if second {
                    // a second flip nearby: the adjacent byte, or two bytes further on / back, same or another bit
                    let (o2, b2) = match ctx.ch.draw(4) {
                        0 => (off ^ 1, (bit + 3) % 8),
                        1 => (off + 2, bit),
                        2 => (off.saturating_sub(2), bit),
                        _ => (off + 1, bit),
                    };
                    if o2 != off {
                        plan.push(Fault::RawFlip { at: k, off: o2, bit: b2 });
                    }
                }
                ctx.fault("tamper-authenticated-field");
                let t = walk(&mut w, true, &pkt, src, 0, now, &plan, 200);
                ctx.log(format!("c11 tamper before step {k}: {what} bit {bit}{}: {}", if second { " (+second flip)" } else { "" }, t.fin.class()));
                check_steps(ctx, &w, "tampered path", &t)?;
                ctx.checked();
                if matches!(t.fin, Final::Delivered(_)) {
                    return ctx.violate("C11/tampering-not-detected", format!("path {sh}: flipping {what} (bit {bit}) before step {k} went unnoticed: {:?}; steps: {}", t.fin, describe_steps(&w, &t)));
                }
                // detected no later than at the AS that owns the tampered hop field: that AS is the one the honest
                // walk was at when the pointer reached the hop field
                let owner_step = fwd.steps.iter().position(|s| pointers(&s.bytes_before).map(|p| p.1 <= owner_hop).unwrap_or(false) && pointers(&s.bytes_after).map(|p| p.1 > owner_hop || s.out.starts_with("Deliver")).unwrap_or(false));
                // the same tampering against the library-level router (sciparse's own HopMacValidator)
                {
                    USE_LIB_ROUTER.with(|c| c.set(true));
                    let tl = walk(&mut w, true, &pkt, src, 0, now, &plan, 200);
                    USE_LIB_ROUTER.with(|c| c.set(false));
                    check_steps(ctx, &w, "tampered path (library router)", &tl)?;
                    ctx.probe("library-router-tamper-checked");
                    if matches!(tl.fin, Final::Delivered(_)) {
                        return ctx.violate("C11/tampering-not-detected", format!("path {sh}: flipping {what} (bit {bit}) before step {k} went unnoticed by sciparse's HopMacValidator: {:?}; plan {plan:?}; steps: {}", tl.fin, describe_steps(&w, &tl)));
                    }
                }
                if let Some(os) = owner_step {
                    if t.steps.len() > os + 1 && !matches!(t.fin, Final::Alert(_)) {
                        return ctx.violate(
                            "C11/tampering-detected-too-late",
                            format!("path {sh}: flipping {what} before step {k} was only noticed at step {} although the owning AS is visited at step {os}; steps: {}", t.steps.len() - 1, describe_steps(&w, &t)),
                        );
                    }
                    ctx.probe("tamper-detected-in-time");
                }
            }
        }
    }
    Ok(())
}

fn run_net(prop: &str, ctx: &mut RunCtx) -> RunResult {
    if prop == "C11" {
        return run_c11(ctx);
    }
    if prop == "C14" {
        return c14::run_c14(ctx);
    }
    let mut w = topo::draw(ctx);
    for a in 0..w.m.ases.len() {
        ctx.log(format!("as {} core={} ifs={:?}", w.m.name(a), w.m.ases[a].core, w.m.ases[a].ifs.keys().collect::<Vec<_>>()));
    }
    for d in w.desc.clone() {
        ctx.log(d);
    }
    let reg = SegmentRegistry::from_topology(&w.real);
    let n = w.m.ases.len();
    // beacon parameters
    let stock = ctx.ch.chance(1, 3);
    let ts = T0 - ctx.ch.draw(3000) as u32;
    let seg_id = ctx.ch.draw(65536) as u16;
    let exp = [255u8, 0, 1, 63, 200][ctx.ch.idx(5)];
    let exp = if stock { 255 } else { exp };
    let seg_id = if stock { 0 } else { seg_id };
    let mut life = ((exp as u64 + 1) * 675 / 2) as u32;
    // segments of different ages (C01 only): the core segments are older than the up/down segments
    let core_delta = if prop == "C01" && !stock && life > 16 && ctx.ch.chance(1, 3) { 1 + ctx.ch.draw((life / 4).min(900) as u64) as u32 } else { 0 };
    if core_delta > 0 {
        ctx.fault("segments-of-different-age");
        life -= core_delta;
    }
    ctx.log(format!("beacons stock={stock} ts=T0-{} seg_id={seg_id} exp={exp} core segments older by {core_delta}s", T0 - ts));
    let n_pairs = 1 + ctx.ch.idx(4);
    let mut harvest: Vec<(ScionPath, usize, usize)> = Vec::new();
    for _ in 0..n_pairs {
        let src = ctx.ch.idx(n);
        let dst = ctx.ch.idx(n);
        if src == dst {
            continue;
        }
        let paths = match offered_mixed(&w, &reg, src, dst, ts, seg_id, exp, stock, core_delta) {
            Ok(p) => p,
            Err(e) => {
                ctx.log(format!("lookup {}->{} failed: {e}", w.m.name(src), w.m.name(dst)));
                Vec::new()
            }
        };
        ctx.log(format!("lookup {}->{}: {} paths", w.m.name(src), w.m.name(dst), paths.len()));
        // C01 completeness
        if prop == "C01" {
            ctx.checked();
            if paths.is_empty() && w.m.reachable(src, dst) {
                ctx.violate("C01/no-path-offered", format!("{}->{}: a valley-free route over up links exists in the topology but no path is offered", w.m.name(src), w.m.name(dst)))?;
            }
            if !paths.is_empty() {
                ctx.probe("pair-with-paths");
            }
        }
        let take = paths.len().min(6);
        for (k, p) in paths.into_iter().enumerate() {
            if k >= take && !ctx.ch.chance(1, 4) {
                continue;
            }
            harvest.push((p, src, dst));
        }
    }
    // router clock: inside the validity window (benign) or at its edges
    let now_choices = [ts, ts + 1, ts + life / 2, ts + life.saturating_sub(2)];
    for (p, src, dst) in harvest.clone() {
        let Some(pkt) = packet_for(&p, b"verif") else { continue };
        let sh = shape(&p);
        let now = now_choices[ctx.ch.idx(now_choices.len())].max(ts);
        let hops = 3 * 64;
        // ---- fault-free walk: C01 (reference) and C13 (real vs reference)
        let r_ref = walk(&mut w, false, &pkt, src, 0, now, &[], hops);
        let r_real = walk(&mut w, true, &pkt, src, 0, now, &[], hops);
        let tag = is_shortcut_or_peering(&sh, &pkt);
        ctx.log(format!("path {}->{} {sh}{tag} now=ts+{}: ref={} real={}", w.m.name(src), w.m.name(dst), now - ts, r_ref.fin.class(), r_real.fin.class()));
        if tag == " [shortcut]" {
            ctx.probe("shortcut-path");
        }
        if tag == " [peering]" {
            ctx.probe("peering-path");
        }
        if sh.matches('[').count() == 3 {
            ctx.probe("three-segment-path");
        }
        ctx.checked();
        if prop == "C01" {
            if r_ref.fin != Final::Delivered(dst) {
                ctx.violate(
                    "C01/offered-path-not-forwardable",
                    format!("offered path {sh}{tag} {}->{} is not forwardable under the reference routers: {:?}; steps: {}", w.m.name(src), w.m.name(dst), r_ref.fin, describe_steps(&w, &r_ref)),
                )?;
            } else {
                // metadata names the links actually traversed
                if let Some(mh) = metadata_hops(&w, &p) {
                    let walked: Vec<(usize, u16)> = r_ref.steps.iter().map(|s| (s.at, s.ing)).collect();
                    let meta: Vec<(usize, u16)> = mh.iter().map(|h| (h.0, h.1)).collect();
                    if walked != meta {
                        ctx.violate("C01/metadata-differs-from-route", format!("path {sh} {}->{}: metadata announces {:?}, the packet travelled {:?}", w.m.name(src), w.m.name(dst), meta, walked))?;
                    }
                } else {
                    ctx.violate("C01/metadata-missing", format!("offered path {sh} carries no usable interface metadata"))?;
                }
                // bounded liveness
                if r_ref.steps.len() > metadata_hops(&w, &p).map(|m| m.len()).unwrap_or(64) {
                    ctx.violate("C01/too-many-steps", format!("{} AS steps", r_ref.steps.len()))?;
                }
                // the SDK's own router must carry the SDK's own paths too
                if r_real.fin != Final::Delivered(dst) {
                    ctx.violate(
                        "C01/offered-path-not-forwardable-by-the-sdk-router",
                        format!("offered path {sh}{tag} {}->{} is delivered by the reference routers but the SDK's routers answer {:?}; steps: {}", w.m.name(src), w.m.name(dst), r_real.fin, describe_steps(&w, &r_real)),
                    )?;
                }
                // and the reverse of the path as received at the destination carries the reply back (what the SDK's
                // echo handler and sockets do with a received packet)
                let delivered = r_ref.steps.last().map(|s| s.bytes_after.clone()).unwrap_or_default();
                match reply_packet(&delivered) {
                    Ok(rpkt) => {
                        let rr = walk(&mut w, false, &rpkt, dst, 0, now, &[], hops);
                        ctx.probe("reverse-walked");
                        if rr.fin != Final::Delivered(src) {
                            ctx.violate("C01/reverse-not-forwardable", format!("reverse of offered path {sh}{tag} {}->{}: {:?}; steps: {}", w.m.name(src), w.m.name(dst), rr.fin, describe_steps(&w, &rr)))?;
                        }
                    }
                    Err(e) => ctx.violate("C01/reverse-fails", format!("reversing the path of a delivered packet failed: {e}"))?,
                }
            }
            continue;
        }
        // ---- C13
        compare(ctx, &w, "honest", &sh, tag, &r_real, &r_ref)?;
        // ---- faulty walks of the same packet
        let n_fault_walks = ctx.ch.idx(3);
        for _ in 0..n_fault_walks {
            let plan = draw_plan(ctx, &w, r_ref.steps.len().max(1), life);
            let f_ref = walk(&mut w, false, &pkt, src, 0, now, &plan, hops);
            let f_real = walk(&mut w, true, &pkt, src, 0, now, &plan, hops);
            ctx.log(format!("faulty {plan:?}: ref={} real={}", f_ref.fin.class(), f_real.fin.class()));
            ctx.checked();
            compare(ctx, &w, "faulty", &sh, tag, &f_real, &f_ref)?;
        }
    }
    if prop == "C13" {
        attacker(ctx, &mut w, &harvest, ts, life)?;
        onehop(ctx, &mut w)?;
    }
    Ok(())
}

/// One-hop paths (bootstrapping between neighbouring ASes): honest ones and ones with a wrong key, an expired hop
/// field, a down or non-existing egress link.
fn onehop(ctx: &mut RunCtx, w: &mut World) -> RunResult {
    use sciparse::dataplane_path::model::DpPath;
    use sciparse::dataplane_path::onehop::model::OneHopPath;
    let n = 1 + ctx.ch.idx(3);
    for _ in 0..n {
        let src = ctx.ch.idx(w.m.ases.len());
        let ifs: Vec<u16> = w.m.ases[src].ifs.keys().copied().collect();
        if ifs.is_empty() {
            continue;
        }
        let eg = ifs[ctx.ch.idx(ifs.len())];
        let nbr = w.m.ases[src].ifs[&eg].nbr;
        let kind = ctx.ch.draw(7);
        let mut key = w.m.ases[src].key;
        let mut dst = nbr;
        let mut egress = eg;
        let exp = [255u8, 0, 10][ctx.ch.idx(3)];
        let life = ((exp as u64 + 1) * 675 / 2) as u32;
        let ts = T0;
        let mut now = T0 + life / 2;
        let mut plan: Vec<Fault> = Vec::new();
        match kind {
            1 => key[ctx.ch.idx(16)] ^= 1 << ctx.ch.draw(8), // wrong forwarding key
            2 => now = T0 + life + 5,                        // expired
            3 => plan.push(Fault::EgressDown { at: 0 }),     // link down
            4 => {
                egress = 60_000; // interface the AS does not have
            }
            6 => {
                // addressed to an AS other than the neighbour the single hop leads to
                dst = ctx.ch.idx(w.m.ases.len());
                if dst == nbr {
                    dst = src;
                }
            }
            _ => {}
        }
        let path = OneHopPath::new(egress, ctx.ch.draw(65536) as u16, ts, key, exp);
        let pkt = ScionRawPacket::new(addr(w.m.isd_asn(src), 1), addr(w.m.isd_asn(dst), 2), DpPath::OneHop(path), ProtocolNumber::Other(253), b"onehop".to_vec());
        let Ok(v) = pkt.try_encode_to_owned_view() else { continue };
        let bytes = v.as_slice().to_vec();
        ctx.fault("one-hop-packet");
        let r_ref = walk(w, false, &bytes, src, 0, now, &plan, 8);
        let r_real = walk(w, true, &bytes, src, 0, now, &plan, 8);
        let what = ["honest", "wrong key", "expired", "egress link down", "unknown egress", "honest", "addressed to another AS"][kind as usize];
        ctx.log(format!("onehop {} {}#{egress}->{}: ref={} real={}", what, w.m.name(src), w.m.name(nbr), r_ref.fin.class(), r_real.fin.class()));
        ctx.checked();
        if matches!(r_ref.fin, Final::Delivered(_)) {
            ctx.probe("one-hop-delivered");
        }
        let tag = match kind {
            0 | 5 => "",
            6 => " [one-hop packet addressed to an AS the hop does not lead to]",
            _ => " [one-hop path that must be refused]",
        };
        compare(ctx, w, "one-hop", "[onehop]", tag, &r_real, &r_ref)?;
    }
    // empty-path (AS-internal) packets: delivered only if addressed to the AS they are in
    for _ in 0..1 + ctx.ch.idx(2) {
        let at = ctx.ch.idx(w.m.ases.len());
        let to = if ctx.ch.chance(1, 3) { at } else { ctx.ch.idx(w.m.ases.len()) };
        let pkt = ScionRawPacket::new(addr(w.m.isd_asn(at), 1), addr(w.m.isd_asn(to), 2), DpPath::Empty, ProtocolNumber::Other(253), b"as-internal".to_vec());
        let Ok(v) = pkt.try_encode_to_owned_view() else { continue };
        let bytes = v.as_slice().to_vec();
        ctx.fault("empty-path-packet");
        let r_ref = walk(w, false, &bytes, at, 0, T0, &[], 4);
        let r_real = walk(w, true, &bytes, at, 0, T0, &[], 4);
        ctx.log(format!("empty path in {} addressed to {}: ref={} real={}", w.m.name(at), w.m.name(to), r_ref.fin.class(), r_real.fin.class()));
        ctx.checked();
        if at != to {
            ctx.probe("empty-path-foreign-destination");
        }
        compare(ctx, w, "empty-path", "[empty]", "", &r_real, &r_ref)?;
    }
    Ok(())
}

fn draw_plan(ctx: &mut RunCtx, w: &World, n_steps: usize, life: u32) -> Vec<Fault> {
    let mut plan = Vec::new();
    let n = 1 + ctx.ch.idx(2);
    for _ in 0..n {
        let at = ctx.ch.idx(n_steps + 1);
        match ctx.ch.draw(4) {
            0 => {
                ctx.fault("bit-flip");
                plan.push(Fault::BitFlip { at, pos_permille: ctx.ch.draw(1000), bit: ctx.ch.draw(8) as u8 });
            }
            1 => {
                ctx.fault("delay-across-expiry");
                let secs = [1u32, life / 2, life.saturating_sub(3), life, life + 3, 2 * life][ctx.ch.idx(6)];
                plan.push(Fault::Delay { at, secs });
            }
            2 => {
                ctx.fault("link-down-in-flight");
                plan.push(Fault::EgressDown { at });
            }
            _ => {
                ctx.fault("misdelivery");
                let to = ctx.ch.idx(w.m.ases.len());
                let ifs: Vec<u16> = w.m.ases[to].ifs.keys().copied().collect();
                let ifid = if ifs.is_empty() || ctx.ch.chance(1, 5) { ctx.ch.draw(4) as u16 } else { ifs[ctx.ch.idx(ifs.len())] };
                plan.push(Fault::Misdeliver { at, to, ifid });
            }
        }
    }
    plan
}

fn compare(ctx: &mut RunCtx, w: &World, kind: &str, sh: &str, tag: &str, real: &WalkOut, rf: &WalkOut) -> RunResult {
    match (&real.fin, &rf.fin) {
        (_, Final::Unspecified(..)) | (_, Final::Alert(_)) => {
            ctx.probe("reference-unspecified");
            return Ok(());
        }
        (Final::Alert(_), _) => return Ok(()),
        _ => {}
    }
    if let Final::Error(e) = &real.fin {
        return ctx.violate("C13/simulator-error", format!("{kind} packet {sh}: the simulator failed with '{e}'; reference: {:?}", rf.fin));
    }
    if matches!(real.fin, Final::Exhausted) {
        return ctx.violate("C13/no-verdict", format!("{kind} packet {sh}: no verdict within the step budget; steps: {}", describe_steps(w, real)));
    }
    if real.fin.class() != rf.fin.class() {
        let over = matches!(real.fin, Final::Delivered(_));
        let mut tag = tag.to_string();
        // the peering flag as the routers saw it (a bit flip in flight may have set it)
        let flagged = real.steps.iter().chain(rf.steps.iter()).any(|st| {
            refrouter::parse_hdr(&st.bytes_after)
                .filter(|h| h.path_type == 1)
                .and_then(|h| refrouter::StdPath::parse(&st.bytes_after, h.path_off, h.hdr_len))
                .map(|sp| (0..sp.n_inf).any(|i| sp.info(&st.bytes_after, i).peer))
                .unwrap_or(false)
        });
        if sh.contains('P') || flagged {
            tag.push_str(" [peering-flag]");
        }
        if let Final::Refused(a, why) = &rf.fin {
            if why == "invalid-path" {
                if let Some(h) = rf.steps.last().and_then(|st| refrouter::parse_hdr(&st.bytes_after)) {
                    if h.dst_ia == w.m.ases[*a].ia {
                        tag.push_str(" [transits its destination AS]");
                    }
                }
            }
        }
        return ctx.violate(
            "C13/verdict-differs",
            format!(
                "{kind} packet {sh}{tag}: SDK routers say {:?}, reference routers say {:?} ({}); real steps: {} | reference steps: {}",
                real.fin,
                rf.fin,
                if over { "over-acceptance" } else if matches!(rf.fin, Final::Delivered(_)) { "under-acceptance" } else { "different refusal" },
                describe_steps(w, real),
                describe_steps(w, rf)
            ),
        );
    }
    // per-traversal clauses on the real walk
    if let Final::Delivered(a) = real.fin {
        if let Some(last) = real.steps.last() {
            if let Some(h) = refrouter::parse_hdr(&last.bytes_after) {
                if h.dst_ia != w.m.ases[a].ia {
                    return ctx.violate("C13/delivered-outside-destination-as", format!("delivered in {} although the destination is another AS", w.m.name(a)));
                }
            }
        }
    }
    Ok(())
}

/// The attacker endpoint: recombine authentic segments harvested from offered paths (and their reverses) and
/// inject the result; replay snapshots of honest packets at other ASes.
fn attacker(ctx: &mut RunCtx, w: &mut World, harvest: &[(ScionPath, usize, usize)], ts: u32, life: u32) -> RunResult {
    #[derive(Clone)]
    struct Seg {
        info: [u8; 8],
        hops: Vec<[u8; 12]>,
        owners: Vec<usize>,
        first_as: usize,
        last_as: usize,
    }
    let mut segs: Vec<Seg> = Vec::new();
    let now = ts + 1;
    for (p, src, dst) in harvest {
        for rev in [false, true] {
            let mut q = p.clone();
            let (s, d) = if rev {
                if q.try_reverse().is_err() {
                    continue;
                }
                (*dst, *src)
            } else {
                (*src, *dst)
            };
            let Some(b) = packet_for(&q, b"") else { continue };
            let Some(h) = refrouter::parse_hdr(&b) else { continue };
            let Some(sp) = refrouter::StdPath::parse(&b, h.path_off, h.hdr_len) else { continue };
            // AS of every hop field, from an honest reference walk
            let r = walk(w, false, &b, s, 0, now, &[], 200);
            if r.fin != Final::Delivered(d) {
                continue;
            }
            let mut as_of_hop: BTreeMap<usize, usize> = BTreeMap::new();
            let mut before = 0usize;
            for st in &r.steps {
                let hh = refrouter::parse_hdr(&st.bytes_after).unwrap();
                let pp = refrouter::StdPath::parse(&st.bytes_after, hh.path_off, hh.hdr_len).unwrap();
                for j in before..=pp.curr_hf.min(sp.n_hf - 1) {
                    as_of_hop.entry(j).or_insert(st.at);
                }
                before = pp.curr_hf;
            }
            for i in 0..sp.n_inf {
                let start = sp.seg_start(i);
                let info: [u8; 8] = b[sp.info_off(i)..sp.info_off(i) + 8].try_into().unwrap();
                let hops: Vec<[u8; 12]> = (start..start + sp.seg_len[i]).map(|j| b[sp.hop_off(j)..sp.hop_off(j) + 12].try_into().unwrap()).collect();
                let (Some(fa), Some(la)) = (as_of_hop.get(&start), as_of_hop.get(&(start + sp.seg_len[i] - 1))) else { continue };
                let owners: Vec<usize> = (start..start + sp.seg_len[i]).map(|j| as_of_hop.get(&j).copied().unwrap_or(usize::MAX)).collect();
                segs.push(Seg { info, hops, owners, first_as: *fa, last_as: *la });
            }
        }
    }
    if segs.is_empty() {
        return Ok(());
    }
    let n_attacks = 1 + ctx.ch.idx(6);
    for _ in 0..n_attacks {
        let mut chosen: Vec<Seg> = Vec::new();
        let n_seg = 1 + ctx.ch.idx(3);
        // junction-directed splice: two authentic pieces that meet in one AS X - a head of a segment that ends in X
        // and a tail of a segment that starts in X - so that every pair of link types X has is tried at a segment change
        if ctx.ch.chance(1, 2) {
            let x = ctx.ch.idx(w.m.ases.len());
            let heads: Vec<(usize, usize)> = segs.iter().enumerate().flat_map(|(i, s)| s.owners.iter().enumerate().filter(|(p, o)| **o == x && *p >= 1).map(move |(p, _)| (i, p)).collect::<Vec<_>>()).collect();
            let tails: Vec<(usize, usize)> = segs.iter().enumerate().flat_map(|(i, s)| s.owners.iter().enumerate().filter(|(p, o)| **o == x && *p + 2 <= s.owners.len()).map(move |(p, _)| (i, p)).collect::<Vec<_>>()).collect();
            if !heads.is_empty() && !tails.is_empty() {
                let (hi, hp) = heads[ctx.ch.idx(heads.len())];
                let (ti, tp) = tails[ctx.ch.idx(tails.len())];
                let mut a = segs[hi].clone();
                a.hops.truncate(hp + 1);
                a.owners.truncate(hp + 1);
                a.last_as = x;
                let mut b = segs[ti].clone();
                if tp > 0 {
                    cut_tail(&mut b.info, &mut b.hops, tp);
                    b.owners.drain(..tp);
                }
                b.first_as = x;
                chosen.push(a);
                chosen.push(b);
                ctx.probe("attack-junction-directed");
            }
        }
        for k in chosen.len()..n_seg.max(chosen.len()) {
            let junction = if k > 0 { chosen[k - 1].last_as } else { usize::MAX };
            let mode = if k > 0 { ctx.ch.draw(4) } else { 3 };
            let cands: Vec<&Seg> = match mode {
                0 | 1 => segs.iter().filter(|s| s.first_as == junction).collect(),
                // a segment that passes through the junction AS: its tail from there on is spliced in
                2 => segs.iter().filter(|s| s.owners.len() > 2 && s.owners[1..s.owners.len() - 1].contains(&junction)).collect(),
                _ => segs.iter().collect(),
            };
            if cands.is_empty() {
                break;
            }
            let mut s = cands[ctx.ch.idx(cands.len())].clone();
            if mode == 2 {
                let k0 = s.owners.iter().position(|o| *o == junction).unwrap_or(0);
                if k0 > 0 {
                    cut_tail(&mut s.info, &mut s.hops, k0);
                    s.owners.drain(..k0);
                    s.first_as = junction;
                    ctx.probe("attack-spliced-tail-at-junction");
                }
            }
            // optional tampering with unauthenticated parts
            match ctx.ch.draw(10) {
                0 => s.info[0] ^= 0x01, // flip the direction flag
                1 => s.info[0] ^= 0x02, // flip the peering flag
                2 => {
                    let v = ctx.ch.draw(65536) as u16;
                    s.info[2..4].copy_from_slice(&v.to_be_bytes());
                }
                3 if s.hops.len() > 2 => {
                    // cut the segment short
                    let cut = 2 + ctx.ch.idx(s.hops.len() - 2);
                    s.hops.truncate(cut);
                    s.owners.truncate(cut);
                    s.last_as = s.owners.last().copied().unwrap_or(s.last_as);
                }
                4 | 5 if s.hops.len() > 2 => {
                    // keep only a tail of the segment and give it the SegID that authenticates its first hop field
                    // (an attacker knows every MAC of a segment it has seen): in construction direction
                    // beta_k = beta_0 xor the leading bytes of the MACs before k; against it the accumulator the k-th
                    // router would have arrived at
                    let k = 1 + ctx.ch.idx(s.hops.len() - 2);
                    cut_tail(&mut s.info, &mut s.hops, k);
                    s.owners.drain(..k);
                    s.first_as = s.owners.first().copied().unwrap_or(usize::MAX);
                    ctx.probe("attack-segment-tail");
                }
                _ => {}
            }
            chosen.push(s);
        }
        if chosen.is_empty() {
            continue;
        }
        ctx.fault("attacker-recombination");
        let src = chosen[0].first_as;
        let dst = if ctx.ch.chance(4, 5) && chosen.last().unwrap().last_as != usize::MAX { chosen.last().unwrap().last_as } else { ctx.ch.idx(w.m.ases.len()) };
        // assemble the raw path
        let mut lens = [0usize; 3];
        for (i, s) in chosen.iter().enumerate() {
            lens[i] = s.hops.len();
        }
        let meta: u32 = ((lens[0] as u32 & 0x3f) << 12) | ((lens[1] as u32 & 0x3f) << 6) | (lens[2] as u32 & 0x3f);
        let mut raw = meta.to_be_bytes().to_vec();
        for s in &chosen {
            raw.extend_from_slice(&s.info);
        }
        for s in &chosen {
            for h in &s.hops {
                raw.extend_from_slice(h);
            }
        }
        if src == usize::MAX {
            continue;
        }
        // optionally start in the middle: the pointers name a later hop field and the packet is injected at the AS
        // owning it (from inside, or on the interface that hop field names)
        let all_owners: Vec<usize> = chosen.iter().flat_map(|s| s.owners.iter().copied()).collect();
        let n_hf: usize = lens.iter().sum();
        let mut start_hf = 0usize;
        if n_hf > 1 && ctx.ch.chance(1, 4) {
            start_hf = 1 + ctx.ch.idx(n_hf - 1);
            let mut inf = 0;
            let mut acc = lens[0];
            while start_hf >= acc && inf < 2 {
                inf += 1;
                acc += lens[inf];
            }
            raw[0] = ((inf as u8) << 6) | (start_hf as u8 & 0x3f);
            ctx.probe("attack-starts-mid-path");
        }
        // optionally forge the MAC of one hop field from the start position onwards
        if ctx.ch.chance(1, 5) {
            let j = start_hf + ctx.ch.idx(n_hf - start_hf);
            let n_inf = chosen.len();
            let o = 4 + 8 * n_inf + 12 * j + 6 + ctx.ch.idx(6);
            raw[o] ^= 1 << ctx.ch.draw(8);
            ctx.probe("attack-forged-mac");
        }
        let src = if start_hf > 0 { all_owners.get(start_hf).copied().unwrap_or(usize::MAX) } else { src };
        if src == usize::MAX {
            continue;
        }
        // wrap it into a packet by re-using an encoded packet's headers: build with the model API
        let Some(pkt) = packet_from_raw_path(w.m.isd_asn(src), w.m.isd_asn(dst), &raw) else { continue };
        let inject_inside = ctx.ch.chance(4, 5);
        let (at, ing) = if inject_inside {
            (src, 0u16)
        } else {
            let a = ctx.ch.idx(w.m.ases.len());
            let ifs: Vec<u16> = w.m.ases[a].ifs.keys().copied().collect();
            (a, if ifs.is_empty() { 1 } else { ifs[ctx.ch.idx(ifs.len())] })
        };
        let t = now + if ctx.ch.chance(1, 6) { life + 5 } else { 0 };
        let r_ref = walk(w, false, &pkt, at, ing, t, &[], 200);
        let r_real = walk(w, true, &pkt, at, ing, t, &[], 200);
        let shape: String = chosen.iter().map(|s| format!("[{}{}{}]", if s.info[0] & 1 != 0 { "C" } else { "c" }, if s.info[0] & 2 != 0 { "P" } else { "" }, s.hops.len())).collect();
        ctx.log(format!("attack {shape} inject@{}#{ing} dst={}: ref={} real={}", w.m.name(at), w.m.name(dst), r_ref.fin.class(), r_real.fin.class()));
        ctx.checked();
        if matches!(r_ref.fin, Final::Delivered(_)) {
            ctx.probe("attack-accepted-by-reference");
        } else {
            ctx.probe("attack-refused-by-reference");
        }
        compare(ctx, w, "attacker", &shape, "", &r_real, &r_ref)?;
    }
    Ok(())
}

/// Drop the first `k` hop fields of a segment and set the SegID so that the new first hop field authenticates.
fn cut_tail(info: &mut [u8; 8], hops: &mut Vec<[u8; 12]>, k: usize) {
    let cons = info[0] & 1 != 0;
    let mut seg_id = u16::from_be_bytes([info[2], info[3]]);
    if cons {
        for h in &hops[..k] {
            seg_id ^= u16::from_be_bytes([h[6], h[7]]);
        }
    } else {
        for h in &hops[1..=k] {
            seg_id ^= u16::from_be_bytes([h[6], h[7]]);
        }
    }
    info[2..4].copy_from_slice(&seg_id.to_be_bytes());
    hops.drain(..k);
}

fn packet_from_raw_path(src: IsdAsn, dst: IsdAsn, raw_path: &[u8]) -> Option<Vec<u8>> {
    // encode a packet with an *empty* path, then splice the raw standard path in by hand (own encoder: the point
    // is to be able to build paths the SDK's model types would refuse)
    let base = ScionRawPacket::new(addr(src, 1), addr(dst, 2), sciparse::dataplane_path::model::DpPath::Empty, ProtocolNumber::Other(253), b"attack".to_vec());
    let b = base.try_encode_to_owned_view().ok()?.as_slice().to_vec();
    let h = refrouter::parse_hdr(&b)?;
    if raw_path.len() % 4 != 0 {
        return None;
    }
    let mut out = Vec::new();
    out.extend_from_slice(&b[..h.path_off]);
    out.extend_from_slice(raw_path);
    out.extend_from_slice(&b[h.hdr_len..]);
    let new_hdr_len = h.path_off + raw_path.len();
    if new_hdr_len / 4 > 255 {
        return None;
    }
    out[5] = (new_hdr_len / 4) as u8;
    out[8] = 1; // path type SCION
    Some(out)
}

impl Engine for NetEngine {
    fn name(&self) -> &'static str {
        "verif-net"
    }
    fn properties(&self) -> &'static [&'static str] {
        &["C13", "C01", "C11", "C14"]
    }
    fn run(&self, prop: &str, ctx: &mut RunCtx) -> RunResult {
        run_net(prop, ctx)
    }
    fn budget(&self, prop: &str, tier: Tier) -> Budget {
        // Thorough run counts: validated prefixes of the default seed's run sequence (see verif-mgr's budget)
        let thorough_runs = match prop {
            "C14" => 1_000_000,
            "C13" => 500_000,
            "C01" => 400_000,
            _ => 180_000,
        };
        match tier {
            Tier::Quick => Budget { runs: 20_000, wall_cap_s: 150 },
            Tier::Thorough => Budget { runs: thorough_runs, wall_cap_s: 1500 },
        }
    }
    fn classifier(&self) -> fn(&str, &str, &[String]) -> Option<&'static str> {
        classify
    }
    fn rule(&self, _prop: &str) -> String {
        "a run counts as non-trivial if at least one packet was walked through both router implementations and their verdicts compared (C13) or one offered path was judged (C01); distinct = distinct FNV-1a hash of the abstract trace (topology, lookups, per-packet verdict classes)".into()
    }
    fn real_components(&self, _prop: &str) -> Vec<&'static str> {
        vec![
            "pocketscion ScionTopologyBuilder/ScionTopology (link rules, link state)",
            "pocketscion SegmentRegistry::from_topology, endhost_list_segments (lister plan), into_path_segments / LinkSegment::to_path_segment (real per-AS keys, MAC chaining, peer entries, ECDSA signing)",
            "sciparse combinator (combine), ScionPath::try_reverse, packet encoder",
            "pocketscion ScionNetworkSim::iter + SpecRoutingLogic (StdRoutingLogic, OneHopRoutingLogic, StandardValidator), sciparse advance_ingress/egress_with_validator — one real AS step per call",
            "C14: pocketscion NetworkSimulator::dispatch + LocalNetworkSimulation, scion-stack DefaultEchoHandler / ScmpErrorHandler / PathUnawareUdpScionSocket::recv_from (hook H8), snap-dataplane inbound_datagram_check + TunnelGateway::create_scmp_error over a real PacketBufPool (hook H11), sciparse SCMP encoders",
        ]
    }
    fn stub_components(&self, _prop: &str) -> Vec<&'static str> {
        vec!["inter-AS links (delay, up/down, bit flips, misdelivery)", "router clock", "attacker endpoint (recombines authentic segments)", "oracle: independent reference router (own decoder, own MAC computation over the aes/cmac crates)"]
    }
    fn assumptions(&self, _prop: &str) -> Vec<&'static str> {
        vec![
            "the reference router follows draft-dekater-scion-dataplane and the open-source router's documented checks; where the specification is open (router alerts, future timestamps, the expiry boundary second, source/destination plausibility of packets from inside an AS) it answers 'unspecified' and no comparison is made",
            "AS identities (ECDSA keys/certificates) are generated once per process and reused across runs; forwarding keys are drawn per run",
            "verdicts are compared in coarse classes (delivered@AS, link-down@(AS,if), refused); SCMP sub-codes are not compared",
            "exploration samples topologies, packets and faults; a clean batch is evidence, not proof",
        ]
    }
    fn required_reach(&self, prop: &str) -> Vec<&'static str> {
        match prop {
            "C14" => vec!["scmp-error-observed", "quote-checked", "quote-truncated", "echo-round-trip", "echo-reply-checked", "error-for-refused-packet", "link-down", "path-expired", "host-replied", "socket-datagrams-delivered", "socket-errors-reported", "socket-echo-replied", "receiver-cancelled", "reply-send-fails", "spurious-wakeup", "scmp-error-between-datagrams"],
            "C11" => vec!["authentic-path-verified", "reverse-path-verified", "tamper-authenticated-field", "tamper-detected-in-time", "refusal-checked-for-atomicity", "replayed-at-earlier-as", "library-router-tamper-checked"],
            "C13" => vec!["shortcut-path", "peering-path", "three-segment-path", "attacker-recombination", "attack-accepted-by-reference", "attack-refused-by-reference", "bit-flip", "delay-across-expiry", "link-down-in-flight", "misdelivery", "one-hop-packet", "one-hop-delivered"],
            _ => vec!["pair-with-paths", "shortcut-path", "peering-path", "three-segment-path", "reverse-walked"],
        }
    }
}

fn main() {
    simcore::runner::main_for(&NetEngine);
}
