//! Layer 2: real EdgeTunClientState <-> EdgeTunServerState (WireGuard + fragmenter + defragmenter + policy)
//! over a simulated lossy datagram link.  Oracle: every packet handed to the far side's tunnel is
//! byte-identical to a packet that was sent in that direction and is delivered at most once, however
//! datagrams are dropped, duplicated, reordered or replayed.

use std::collections::VecDeque;
use std::net::{IpAddr, Ipv4Addr};
use std::sync::Arc;
use std::time::Instant;

use ana_gotatun::noise::rate_limiter::RateLimiter;
use ana_gotatun::noise::TunnResult;
use ana_gotatun::packet::Packet;
use ana_gotatun::x25519;
use anapaya_edge_tun::data::client_state::{EdgeTunClientConfig, EdgeTunClientState};
use anapaya_edge_tun::data::common::{AsIpAddr, EdgePacketBufPool};
use anapaya_edge_tun::data::server::{EdgeTunAuthz, EdgeTunServerState, InboundTrafficPolicy};
use anapaya_edge_tun::fragmenting::metrics::{DefragmentMetrics, FragmentMetrics};
use scion_sdk_observability::metrics::registry::MetricsRegistry;
use simcore::{RunCtx, RunResult};

#[derive(Clone, Debug, PartialEq, Eq, Hash)]
struct Addr(IpAddr);
impl AsIpAddr for Addr {
    fn ip(&self) -> Option<IpAddr> {
        Some(self.0)
    }
}

struct Authz {
    key: x25519::PublicKey,
    taddr: IpAddr,
}
impl EdgeTunAuthz<IpAddr> for Authz {
    fn is_authorized(&self, _now: Instant, identity: &x25519::PublicKey) -> Option<IpAddr> {
        (identity == &self.key).then_some(self.taddr)
    }
}
struct AllowAll;
impl InboundTrafficPolicy<IpAddr> for AllowAll {
    fn check_inbound_policy(&self, _i: &x25519::PublicKey, _t: &IpAddr, _p: &[u8]) -> bool {
        true
    }
}

thread_local! {
    static POOL: EdgePacketBufPool = EdgePacketBufPool::new(8);
}

fn pkt(pool: &EdgePacketBufPool, payload: &[u8]) -> Packet {
    let mut p = pool.get();
    let buf = p.buf_mut();
    buf.truncate(0);
    buf.extend_from_slice(payload);
    p
}

fn secret(n: u8) -> x25519::StaticSecret {
    let mut k = [0u8; 32];
    k[1] = n;
    k[7] = 0x5a;
    x25519::StaticSecret::from(k)
}

fn pat(tag: u8, i: usize) -> u8 {
    ((i as u8).wrapping_mul(29) ^ ((i >> 8) as u8).wrapping_mul(11)).wrapping_add(tag)
}

#[derive(Clone, Copy, PartialEq, Eq, Debug)]
enum Dir {
    C2S,
    S2C,
}

struct Sent {
    dir: Dir,
    data: Vec<u8>,
    delivered: u32,
}

fn draw_mtu(ctx: &mut RunCtx) -> u16 {
    match ctx.ch.draw(5) {
        0 => 1420,
        1 => 272,
        2 => 9000,
        3 => 100, // clamps up to MIN_MTU
        _ => ctx.ch.range(272, 9000) as u16,
    }
}

pub fn run(ctx: &mut RunCtx) -> RunResult {
    let pool = POOL.with(|p| p.clone());
    let ssec = secret(1);
    let spub = x25519::PublicKey::from(&ssec);
    let csec = secret(2);
    let cpub = x25519::PublicKey::from(&csec);
    let taddr = IpAddr::V4(Ipv4Addr::new(10, 0, 0, 1));
    let caddr = Addr(IpAddr::V4(Ipv4Addr::new(192, 0, 2, 7)));
    let saddr = Addr(IpAddr::V4(Ipv4Addr::new(192, 0, 2, 1)));
    let cmtu = draw_mtu(ctx);
    let smtu = draw_mtu(ctx);
    let cq = 1 + ctx.ch.draw(8) as usize;
    let lossy = ctx.ch.draw(4) != 0; // 1 run in 4 fault-free
    ctx.log(format!("l2 cfg cmtu={cmtu} smtu={smtu} client_queues={cq} lossy={lossy}"));

    let reg = MetricsRegistry::new();
    let rl = Arc::new(RateLimiter::new(&spub, u64::MAX / 4));
    let mut srv: EdgeTunServerState<Authz, AllowAll, Addr, IpAddr> = EdgeTunServerState::new(
        ssec,
        rl,
        Arc::new(Authz { key: cpub, taddr }),
        Arc::new(AllowAll),
        pool.clone(),
        smtu,
        FragmentMetrics::new(&reg),
        DefragmentMetrics::new(&reg),
    );
    let reg2 = MetricsRegistry::new();
    let mut cli: EdgeTunClientState<Addr> = EdgeTunClientState::new(
        pool.clone(),
        EdgeTunClientConfig { peer_static: spub, static_secret: csec, rate_limit: u64::MAX / 4, mtu: cmtu, defrag_queue_counts: cq, persistent_keep_alive: None },
        FragmentMetrics::new(&reg2),
        DefragmentMetrics::new(&reg2),
    );

    // in-flight datagrams
    let mut net: Vec<(Dir, Vec<u8>)> = Vec::new();
    let mut old: Vec<(Dir, Vec<u8>)> = Vec::new();
    let mut sent: Vec<Sent> = Vec::new();
    let mut tag = 0u8;

    // reliable handshake (the handshake is not this property's subject)
    {
        let mut q = VecDeque::new();
        cli.handle_outgoing_packet(pkt(&pool, &[0xEE]), &mut q);
        // the trigger packet itself is queued inside the Tunn until the session is up; it is a sent packet
        sent.push(Sent { dir: Dir::C2S, data: vec![0xEE], delivered: 0 });
        let mut to_srv: VecDeque<Vec<u8>> = q.into_iter().map(|w| Packet::from(w).into_bytes().to_vec()).collect();
        let mut rounds = 0;
        while let Some(d) = to_srv.pop_front() {
            rounds += 1;
            if rounds > 16 {
                break;
            }
            let mut sq = VecDeque::new();
            let r = srv.handle_incoming_packet(caddr.clone(), pkt(&pool, &d), &mut sq);
            judge(ctx, &mut sent, Dir::C2S, r)?;
            for w in sq {
                let b = Packet::from(w).into_bytes().to_vec();
                let mut cq2 = VecDeque::new();
                let r = cli.handle_incoming_packet(saddr.clone(), pkt(&pool, &b), &mut cq2);
                judge(ctx, &mut sent, Dir::S2C, r)?;
                for w in cq2 {
                    to_srv.push_back(Packet::from(w).into_bytes().to_vec());
                }
            }
        }
        ctx.log("handshake done".into());
    }

    let nops = 8 + ctx.ch.draw(40);
    for _ in 0..nops {
        let op = ctx.ch.draw(8);
        match op {
            0 | 1 | 2 if sent.len() < 40 => {
                // send a packet in a drawn direction
                let dir = if ctx.ch.draw(2) == 0 { Dir::C2S } else { Dir::S2C };
                let mtu = (if dir == Dir::C2S { cmtu } else { smtu } as usize).clamp(272, 9000);
                let p = mtu - 16;
                let size = match ctx.ch.draw(9) {
                    0 => 1,
                    1 => p - 1,
                    2 => p,
                    3 => p + 1,
                    4 => 2 * p,
                    5 => 2 * p + 1,
                    6 => 3 * p - 1,
                    7 => ctx.ch.range(1, 4 * p as u64) as usize,
                    _ => {
                        if ctx.ch.chance(1, 6) {
                            65535
                        } else {
                            ctx.ch.range(p as u64, 6 * p as u64) as usize
                        }
                    }
                }
                .clamp(1, 65535);
                tag = tag.wrapping_add(1);
                let data: Vec<u8> = (0..size).map(|i| pat(tag, i)).collect();
                ctx.log(format!("send {dir:?} pkt#{} len={size}", sent.len()));
                match dir {
                    Dir::C2S => {
                        let mut q = VecDeque::new();
                        cli.handle_outgoing_packet(pkt(&pool, &data), &mut q);
                        for w in q {
                            net.push((Dir::C2S, Packet::from(w).into_bytes().to_vec()));
                        }
                    }
                    Dir::S2C => {
                        let mut q = VecDeque::new();
                        srv.handle_outgoing_packet(pkt(&pool, &data), &taddr, &mut q);
                        for (_, w) in q {
                            net.push((Dir::S2C, Packet::from(w).into_bytes().to_vec()));
                        }
                    }
                }
                sent.push(Sent { dir, data, delivered: 0 });
            }
            7 if lossy && !old.is_empty() => {
                // replay of an old datagram by an on-path attacker
                ctx.fault("l2-replay");
                let (d, b) = old[ctx.ch.idx(old.len())].clone();
                ctx.log(format!("net replay {d:?} len={}", b.len()));
                deliver(ctx, &pool, &mut srv, &mut cli, &caddr, &saddr, &mut net, &mut sent, d, &b, true)?;
            }
            _ => {
                if net.is_empty() {
                    continue;
                }
                let idx = if lossy && ctx.ch.chance(1, 2) {
                    let i = ctx.ch.idx(net.len());
                    if i != 0 {
                        ctx.fault("reorder");
                    }
                    i
                } else {
                    0
                };
                let fate = if lossy { ctx.ch.draw(10) } else { 0 };
                if fate == 9 {
                    ctx.fault("drop");
                    let (d, b) = net.remove(idx);
                    ctx.log(format!("net drop {d:?} len={}", b.len()));
                    continue;
                }
                let (d, b) = if fate == 8 {
                    ctx.fault("dup");
                    net[idx].clone()
                } else {
                    net.remove(idx)
                };
                if old.len() < 48 {
                    old.push((d, b.clone()));
                }
                deliver(ctx, &pool, &mut srv, &mut cli, &caddr, &saddr, &mut net, &mut sent, d, &b, fate == 8)?;
            }
        }
    }
    // drain: everything still in flight arrives (in order), so un-dropped packets complete
    let mut guard = 0;
    while !net.is_empty() && guard < 2000 {
        guard += 1;
        let (d, b) = net.remove(0);
        deliver(ctx, &pool, &mut srv, &mut cli, &caddr, &saddr, &mut net, &mut sent, d, &b, false)?;
    }
    Ok(())
}

#[allow(clippy::too_many_arguments)]
fn deliver(
    ctx: &mut RunCtx,
    pool: &EdgePacketBufPool,
    srv: &mut EdgeTunServerState<Authz, AllowAll, Addr, IpAddr>,
    cli: &mut EdgeTunClientState<Addr>,
    caddr: &Addr,
    saddr: &Addr,
    net: &mut Vec<(Dir, Vec<u8>)>,
    sent: &mut [Sent],
    d: Dir,
    b: &[u8],
    repeated: bool,
) -> RunResult {
    let mut q = VecDeque::new();
    let r = match d {
        Dir::C2S => srv.handle_incoming_packet(caddr.clone(), pkt(pool, b), &mut q),
        Dir::S2C => cli.handle_incoming_packet(saddr.clone(), pkt(pool, b), &mut q),
    };
    let back = if d == Dir::C2S { Dir::S2C } else { Dir::C2S };
    for w in q {
        net.push((back, Packet::from(w).into_bytes().to_vec()));
    }
    let got = matches!(r, TunnResult::WriteToTunnel(_));
    if repeated && !got {
        ctx.probe("l2-replay-suppressed");
    }
    ctx.log(format!("net deliver {d:?} len={} -> {}", b.len(), match &r {
        TunnResult::Done => "done".to_string(),
        TunnResult::Err(e) => format!("err({e:?})"),
        TunnResult::WriteToNetwork(_) => "to-network".to_string(),
        TunnResult::WriteToTunnel(p) => format!("tunnel len={}", p.len()),
    }));
    judge(ctx, sent, d, r)
}

fn judge(ctx: &mut RunCtx, sent: &mut [Sent], d: Dir, r: TunnResult) -> RunResult {
    if let TunnResult::WriteToTunnel(p) = r {
        ctx.checked();
        let bytes: &[u8] = &p;
        match sent.iter_mut().find(|s| s.dir == d && s.data == bytes) {
            None => ctx.violate("C17/tunnel/not-identical", format!("far side of {d:?} received {} bytes equal to no packet sent in that direction", bytes.len()))?,
            Some(s) => {
                s.delivered += 1;
                ctx.probe("l2-delivered");
                if s.delivered > 1 {
                    ctx.violate("C17/tunnel/at-most-once", format!("a {d:?} packet of {} bytes was delivered {} times", bytes.len(), s.delivered))?;
                }
            }
        }
    }
    Ok(())
}
