//! Layer 1: real Fragmenter → simulated link (+ hostile peer) → real Defragmenter.

use std::collections::{BTreeMap, BTreeSet};

use anapaya_edge_tun::fragmenting::{Defragmenter, Fragmenter, MAX_MTU, MAX_PACKET_SIZE, MIN_MTU};
use simcore::{RunCtx, RunResult};

const HDR: usize = 16;
const LAST: u16 = 0x8000;

fn pat(tag: u8, i: usize) -> u8 {
    ((i as u8).wrapping_mul(31) ^ ((i >> 8) as u8).wrapping_mul(7)).wrapping_add(tag)
}

struct Pkt {
    so: u64,
    data: Vec<u8>,
    nframes: usize,
    delivered: Vec<bool>,
    ndelivered: usize,
    started: bool,
    premise_ok: bool,
    dup_involved: bool,
    emitted: u32,
}

struct Flight {
    bytes: Vec<u8>,
    pkt: usize,
    frame_idx: usize,
    dups: u8,
}

#[derive(Clone)]
struct Seen {
    off: usize,
    last: bool,
    data: Vec<u8>,
}

fn hdr(so: u64, off: u16, flags: u16) -> [u8; HDR] {
    let mut h = [0u8; HDR];
    h[0..8].copy_from_slice(&so.to_be_bytes());
    h[8..10].copy_from_slice(&off.to_be_bytes());
    h[10..12].copy_from_slice(&flags.to_be_bytes());
    h
}

fn parse(b: &[u8]) -> Option<(u64, u16, bool)> {
    if b.len() < HDR {
        return None;
    }
    Some((u64::from_be_bytes(b[0..8].try_into().unwrap()), u16::from_be_bytes(b[8..10].try_into().unwrap()), u16::from_be_bytes(b[10..12].try_into().unwrap()) & LAST != 0))
}

struct World {
    q: usize,
    hostile: bool,
    defrag: Defragmenter,
    pkts: Vec<Pkt>,
    /// every frame ever delivered, by stream offset ("frames of that same packet")
    seen: BTreeMap<u64, Vec<Seen>>,
    /// stream offsets that may currently occupy a reassembly slot (conservative over-approximation)
    touched: BTreeSet<u64>,
    forged_so: BTreeSet<u64>,
    recv_growth: i64,
    next_tag: u8,
    deliveries: u32,
    /// multi-frame packets emitted since when no frame of any *other* stream offset was delivered: their slot
    /// cannot have been reclaimed, so a second emission is a duplicate delivery
    emitted_unreclaimed: BTreeSet<u64>,
}

impl World {
    fn tag(&mut self) -> u8 {
        self.next_tag = self.next_tag.wrapping_add(1);
        if self.next_tag == 0 {
            self.next_tag = 1;
        }
        self.next_tag
    }

    /// Deliver one frame to the real defragmenter and judge the outcome.
    fn deliver(&mut self, ctx: &mut RunCtx, bytes: &[u8], origin: Option<(usize, usize)>, label: &str) -> RunResult {
        self.deliveries += 1;
        let parsed = parse(bytes);
        let fast = matches!(parsed, Some((_, 0, true)));
        if let Some((so, off, last)) = parsed {
            self.seen.entry(so).or_default().push(Seen { off: off as usize, last, data: bytes[HDR..].to_vec() });
            if !fast {
                self.touched.insert(so);
            }
            self.emitted_unreclaimed.retain(|x| *x == so);
            if origin.is_none() {
                self.forged_so.insert(so);
                for p in self.pkts.iter_mut() {
                    if p.so == so {
                        p.premise_ok = false;
                    }
                }
            }
        }
        // completeness premise bookkeeping (before the call: the state the frame meets)
        let mut completes: Option<usize> = None;
        if let Some((pi, fi)) = origin {
            let over = self.touched.len() > self.q;
            let p = &mut self.pkts[pi];
            if !p.started {
                p.started = true;
                p.premise_ok = p.premise_ok && !over && !self.forged_so.contains(&p.so);
            }
            if p.delivered[fi] {
                p.dup_involved = true;
            } else {
                p.delivered[fi] = true;
                p.ndelivered += 1;
                if p.ndelivered == p.nframes {
                    completes = Some(pi);
                }
            }
        }
        if self.touched.len() > self.q {
            ctx.probe("evicted-or-too-old");
            for p in self.pkts.iter_mut() {
                if p.started && p.ndelivered < p.nframes {
                    p.premise_ok = false;
                }
            }
            if let Some(pi) = completes {
                self.pkts[pi].premise_ok = false;
            }
        }

        let before = crate::alloc_count::net();
        let res = self.defrag.recv(bytes);
        let (emit, errs): (Option<(u64, Vec<u8>)>, Option<String>) = match res {
            Ok(Some(p)) => (Some((p.stream_offset, p.payload.to_vec())), None),
            Ok(None) => (None, None),
            Err(e) => (None, Some(format!("{e}"))),
        };
        // (the to_vec above is our own allocation; measure the defragmenter only)
        let after = crate::alloc_count::net() - emit.as_ref().map(|e| e.1.capacity() as i64).unwrap_or(0) - errs.as_ref().map(|s| s.capacity() as i64).unwrap_or(0);
        self.recv_growth += after - before;

        let desc = match parsed {
            Some((so, off, last)) => format!("so={so} off={off} last={} len={}", last as u8, bytes.len() - HDR),
            None => format!("short len={}", bytes.len()),
        };
        match (&emit, &errs) {
            (Some((so, pl)), _) => ctx.log(format!("frame {label} {desc} -> emit so={so} len={} h={:08x}", pl.len(), simcore::fnv1a(pl) as u32)),
            (None, Some(e)) => ctx.log(format!("frame {label} {desc} -> err({e})")),
            (None, None) => ctx.log(format!("frame {label} {desc} -> none")),
        }

        if self.recv_growth > 64 * 1024 {
            ctx.violate("C17/memory/recv-grows", format!("net heap growth inside Defragmenter::recv reached {} bytes after {} deliveries", self.recv_growth, self.deliveries))?;
            self.recv_growth = i64::MIN / 2;
        }

        if let Some((so, payload)) = emit {
            ctx.checked();
            if payload.len() > HDR + MAX_PACKET_SIZE {
                ctx.violate("C17/integrity/oversize", format!("emitted {} bytes", payload.len()))?;
            }
            if !fast {
                ctx.probe("emit-multiframe");
                self.touched.remove(&so);
            }
            // integrity: every byte is a byte received, at that position, in a frame of this stream offset
            let frames = self.seen.get(&so).cloned().unwrap_or_default();
            let mut ok = vec![false; payload.len()];
            for f in &frames {
                for (j, b) in f.data.iter().enumerate() {
                    let i = f.off + j;
                    if i < payload.len() && payload[i] == *b {
                        ok[i] = true;
                    }
                }
            }
            if let Some(i) = ok.iter().position(|x| !x) {
                let last_off = frames.iter().filter(|f| f.last).map(|f| f.off).min();
                let beyond = match last_off {
                    Some(lo) => frames.iter().any(|f| !f.last && f.off > lo),
                    None => false,
                };
                let run = ok[i..].iter().take_while(|x| !**x).count();
                let lasts: BTreeSet<(usize, usize)> = frames.iter().filter(|f| f.last).map(|f| (f.off, f.data.len())).collect();
                let multiple_last = lasts.len() > 1;
                let empty_last = frames.iter().any(|f| f.last && f.data.is_empty());
                ctx.violate(
                    "C17/integrity/uncovered-byte",
                    format!("emitted packet so={so} len={}: bytes {i}..{} were never received in any frame of this packet; middle_beyond_last={beyond} multiple_last={multiple_last} empty_last={empty_last}", payload.len(), i + run),
                )?;
            }
            // honest link: byte-identical to a sent packet, at most once unless duplicated
            let sent = self.pkts.iter().position(|p| p.so == so);
            if !self.hostile {
                match sent {
                    None => ctx.violate("C17/honest/unknown-packet", format!("emitted so={so} which was never sent"))?,
                    Some(pi) => {
                        if self.pkts[pi].data != payload {
                            ctx.violate("C17/honest/not-identical", format!("emitted so={so} len={} differs from the sent packet (len {})", payload.len(), self.pkts[pi].data.len()))?;
                        }
                    }
                }
            }
            if !fast && !self.forged_so.contains(&so) && sent.is_some() {
                if self.emitted_unreclaimed.contains(&so) {
                    ctx.violate(
                        "C17/at-most-once/re-emitted-before-slot-reuse",
                        format!("multi-frame packet so={so} was emitted a second time although no frame of any other packet arrived since its first emission (its reassembly slot cannot have been reclaimed)"),
                    )?;
                }
                self.emitted_unreclaimed.insert(so);
            }
            if let Some(pi) = sent {
                let p = &mut self.pkts[pi];
                if !self.forged_so.contains(&so) {
                    p.emitted += 1;
                    if p.emitted > 1 && !p.dup_involved {
                        ctx.violate("C17/at-most-once/no-dup", format!("packet so={so} emitted {} times although no frame of it was duplicated", p.emitted))?;
                    }
                }
            }
        }
        if let Some(pi) = completes {
            let p = &self.pkts[pi];
            if p.premise_ok {
                ctx.probe("completeness-premise");
                ctx.checked();
                if p.emitted == 0 {
                    ctx.violate(
                        "C17/completeness/not-emitted",
                        format!("all {} frames of packet so={} (len {}) arrived while at most Q={} assemblies were open, but it was not emitted", p.nframes, p.so, p.data.len(), self.q),
                    )?;
                }
            }
        }
        Ok(())
    }
}

fn draw_mtu(ctx: &mut RunCtx) -> usize {
    match ctx.ch.draw(8) {
        0 => MIN_MTU,
        1 => MIN_MTU + 1,
        2 => 300,
        3 => 1500,
        4 => MAX_MTU - 1,
        5 => MAX_MTU,
        6 => 100_000, // clamps to MAX_MTU
        _ => ctx.ch.range(MIN_MTU as u64, MAX_MTU as u64) as usize,
    }
}

fn draw_size(ctx: &mut RunCtx, p: usize) -> usize {
    let s = match ctx.ch.draw(14) {
        0 => p + 1,
        1 => 2 * p,
        2 => 2 * p + 1,
        3 => 2 * p - 1,
        4 => 3 * p,
        5 => {
            let k = ctx.ch.range(1, 8) as usize;
            k * p + 1
        }
        6 => {
            let k = ctx.ch.range(2, 8) as usize;
            k * p - 1
        }
        7 => 1,
        8 => p - 1,
        9 => p,
        10 => MAX_PACKET_SIZE,
        11 => MAX_PACKET_SIZE - 1,
        12 => ctx.ch.range(1, 4 * p as u64) as usize,
        _ => ctx.ch.range(p as u64 + 1, 3 * p as u64) as usize,
    };
    s.clamp(1, MAX_PACKET_SIZE)
}

pub fn run(ctx: &mut RunCtx) -> RunResult {
    let q = 1 + ctx.ch.draw(8) as usize;
    // 0 = fault-free FIFO, 1 = reorder/interleave only, 2 = lossy, 3 = hostile (+lossy)
    let mode = ctx.ch.draw(4);
    let total = 1 + ctx.ch.draw(q as u64 + 2) as usize;
    ctx.log(format!("l1 cfg q={q} mode={mode} packets={total}"));
    let mut w = World {
        q,
        hostile: mode == 3,
        defrag: Defragmenter::new_unobserved(q),
        pkts: Vec::new(),
        seen: BTreeMap::new(),
        touched: BTreeSet::new(),
        forged_so: BTreeSet::new(),
        recv_growth: 0,
        next_tag: 0,
        deliveries: 0,
        emitted_unreclaimed: BTreeSet::new(),
    };
    let mut all_frames: Vec<Vec<Vec<u8>>> = Vec::new();
    let mut replays = 0u32;
    let mut fragmenter = Fragmenter::new_unobserved(1500);
    let mut pool: Vec<Flight> = Vec::new();
    let mut delivered_log: Vec<Vec<u8>> = Vec::new(); // for replays by the hostile peer
    let mut injected = 0usize;
    let mut forged = 0u32;
    let mut steps = 0u32;
    loop {
        steps += 1;
        if steps > 900 || (pool.is_empty() && injected == total) {
            break;
        }
        let must_inject = pool.is_empty();
        let can_inject = injected < total;
        let inject = can_inject && (must_inject || (mode != 0 && ctx.ch.chance(1, 3)));
        if inject {
            let mtu = draw_mtu(ctx);
            fragmenter.set_mtu(mtu);
            let p = fragmenter.mtu() - HDR;
            let size = draw_size(ctx, p);
            let tag = w.tag();
            let data: Vec<u8> = (0..size).map(|i| pat(tag, i)).collect();
            let mut frames = Vec::new();
            let so = fragmenter.send(&data, |f| frames.push(f.to_vec())).expect("fragmenter accepts 1..=65535");
            ctx.log(format!("send pkt#{injected} so={so} len={size} mtu={} frames={}", fragmenter.mtu(), frames.len()));
            let n = frames.len();
            // fragmenter postconditions (honest sender side of the property)
            let mut cat = Vec::new();
            for (i, f) in frames.iter().enumerate() {
                let (fso, off, last) = parse(f).unwrap();
                if fso != so || off as usize != cat.len() || last != (i == n - 1) || f.len() > fragmenter.mtu() {
                    ctx.violate("C17/fragmenter/frame-shape", format!("frame {i} of {n}: so={fso} off={off} last={last} len={}", f.len()))?;
                }
                cat.extend_from_slice(&f[HDR..]);
            }
            if cat != data {
                ctx.violate("C17/fragmenter/payload", "concatenated fragments differ from the packet".into())?;
            }
            all_frames.push(frames.clone());
            for (i, f) in frames.into_iter().enumerate() {
                pool.push(Flight { bytes: f, pkt: injected, frame_idx: i, dups: 0 });
            }
            w.pkts.push(Pkt { so, data, nframes: n, delivered: vec![false; n], ndelivered: 0, started: false, premise_ok: true, dup_involved: false, emitted: 0 });
            injected += 1;
            continue;
        }
        // a duplicating network / second path: the whole of an already delivered multi-frame packet arrives again
        if mode >= 2 && replays < 3 && ctx.ch.chance(1, 10) {
            let done: Vec<usize> = (0..w.pkts.len()).filter(|i| w.pkts[*i].nframes >= 2 && w.pkts[*i].ndelivered == w.pkts[*i].nframes).collect();
            if !done.is_empty() {
                let pk = done[ctx.ch.idx(done.len())];
                replays += 1;
                ctx.fault("replay-whole-packet");
                let order_rev = ctx.ch.chance(1, 3);
                let n = all_frames[pk].len();
                for k in 0..n {
                    let fi = if order_rev { n - 1 - k } else { k };
                    let b = all_frames[pk][fi].clone();
                    w.deliver(ctx, &b, Some((pk, fi)), "replay")?;
                }
                continue;
            }
        }
        if pool.is_empty() {
            break;
        }
        // hostile peer speaks?
        if mode == 3 && forged < 60 && ctx.ch.chance(1, 3) {
            forged += 1;
            ctx.fault("forge");
            let f = forge(ctx, &mut w, &pool, &delivered_log);
            w.deliver(ctx, &f, None, "forged")?;
            continue;
        }
        // which in-flight frame arrives next
        let idx = if mode == 0 {
            0
        } else if ctx.ch.chance(1, 2) {
            let i = ctx.ch.idx(pool.len());
            if i != 0 {
                ctx.fault("reorder");
            }
            i
        } else {
            0
        };
        if mode >= 2 {
            let fate = ctx.ch.draw(10);
            if fate == 9 {
                ctx.fault("drop");
                let f = pool.remove(idx);
                ctx.log(format!("net drop pkt#{} frame{}", f.pkt, f.frame_idx));
                continue;
            }
            if fate == 8 && pool[idx].dups < 2 {
                ctx.fault("dup");
                pool[idx].dups += 1;
                let (b, pk, fi) = (pool[idx].bytes.clone(), pool[idx].pkt, pool[idx].frame_idx);
                delivered_log.push(b.clone());
                w.deliver(ctx, &b, Some((pk, fi)), "dup")?;
                continue;
            }
        }
        let f = pool.remove(idx);
        if delivered_log.len() < 64 {
            delivered_log.push(f.bytes.clone());
        }
        w.deliver(ctx, &f.bytes, Some((f.pkt, f.frame_idx)), "real")?;
    }
    Ok(())
}

/// The hostile peer: forge one frame.
fn forge(ctx: &mut RunCtx, w: &mut World, pool: &[Flight], old: &[Vec<u8>]) -> Vec<u8> {
    let tag = w.tag();
    let fill = |off: usize, len: usize| -> Vec<u8> { (0..len).map(|j| pat(tag, off + j)).collect() };
    let base: Option<Vec<u8>> = if !pool.is_empty() && ctx.ch.chance(2, 3) {
        Some(pool[ctx.ch.idx(pool.len())].bytes.clone())
    } else if !old.is_empty() {
        Some(old[ctx.ch.idx(old.len())].clone())
    } else {
        None
    };
    let kind = ctx.ch.draw(6);
    match (kind, base) {
        (0, Some(b)) => {
            // flip LAST on a copy of a real frame
            let (so, off, last) = parse(&b).unwrap();
            let mut f = hdr(so, off, if last { 0 } else { LAST }).to_vec();
            f.extend_from_slice(&b[HDR..]);
            f
        }
        (1, Some(b)) => {
            // move a copy of a real frame to another offset
            let (so, off, last) = parse(&b).unwrap();
            let len = b.len() - HDR;
            let noff = match ctx.ch.draw(6) {
                0 => off.wrapping_add(1),
                1 => off.wrapping_sub(1),
                2 => (65535usize.saturating_sub(len)) as u16,
                3 => (65536usize.saturating_sub(len)) as u16,
                _ => ((ctx.ch.draw(300) as usize * len.max(1)) & 0xffff) as u16,
            };
            let mut f = hdr(so, noff, if last { LAST } else { 0 }).to_vec();
            f.extend(fill(noff as usize, len));
            f
        }
        (2, Some(b)) => {
            // resize the payload
            let (so, off, last) = parse(&b).unwrap();
            let len = b.len() - HDR;
            let nlen = match ctx.ch.draw(7) {
                0 => 0,
                1 => 1,
                2 => 255,
                3 => 256,
                4 => len.saturating_sub(1),
                5 => len + 1,
                _ => ctx.ch.range(0, 9000) as usize,
            };
            let mut f = hdr(so, off, if last { LAST } else { 0 }).to_vec();
            f.extend(fill(off as usize, nlen));
            f
        }
        (4, _) => {
            let n = ctx.ch.draw(16) as usize;
            (0..n).map(|j| pat(tag, j)).collect()
        }
        (5, Some(b)) => b, // plain replay
        (_, b) => {
            // synthetic frame
            let known: Vec<u64> = w.pkts.iter().map(|p| p.so).collect();
            let so = match ctx.ch.draw(6) {
                0 | 1 | 2 if !known.is_empty() => known[ctx.ch.idx(known.len())],
                3 => known.iter().max().copied().unwrap_or(0) + 70_000 + ctx.ch.draw(3) * 70_000,
                4 => u64::MAX,
                _ => ctx.ch.draw(4),
            };
            let wsz = match ctx.ch.draw(5) {
                0 => 256usize,
                1 => 257,
                2 => 1484,
                3 => 8984,
                _ => b.map(|b| (b.len() - HDR).max(1)).unwrap_or(256),
            };
            let last = ctx.ch.draw(2) == 1;
            let off = match ctx.ch.draw(8) {
                0 => 65535,
                1 => 65535usize.saturating_sub(wsz),
                2 => 65536usize.saturating_sub(wsz),
                _ => (ctx.ch.draw(6) as usize * wsz).min(65535),
            };
            let len = if last {
                match ctx.ch.draw(5) {
                    0 => 1,
                    1 => 10,
                    2 => wsz,
                    3 => wsz + 1,
                    _ => 0,
                }
            } else {
                match ctx.ch.draw(4) {
                    0 => wsz.saturating_sub(1),
                    1 => 0,
                    _ => wsz,
                }
            };
            let mut f = hdr(so, off as u16, if last { LAST } else { 0 }).to_vec();
            f.extend(fill(off, len));
            f
        }
    }
}
