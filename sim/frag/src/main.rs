//! frag-sim — C17: tunnel reassembly under a lossy / reordering / duplicating / hostile link.
//!
//! Layer 1: real `Fragmenter` → simulator-owned link → real `Defragmenter`.
//! Layer 2: real `EdgeTunClientState` ↔ `EdgeTunServerState` (WireGuard + fragmenting) over the same link.

mod alloc_count;
mod layer1;
mod layer2;

use simcore::{Budget, Engine, RunCtx, RunResult, Tier};

#[global_allocator]
static GLOBAL: alloc_count::Counting = alloc_count::Counting;

struct FragEngine;

fn classify(clause: &str, detail: &str, _trace: &[String]) -> Option<&'static str> {
    if clause == "C17/integrity/uncovered-byte" {
        if detail.contains("middle_beyond_last=true") {
            return Some("C17/stale-bytes/middle-frame-beyond-final-size");
        }
        if detail.contains("multiple_last=true") {
            return Some("C17/stale-bytes/second-last-frame-overwrites-size");
        }
        if detail.contains("empty_last=true") {
            return Some("C17/stale-bytes/empty-last-frame-undercounts");
        }
    }
    None
}

impl Engine for FragEngine {
    fn name(&self) -> &'static str {
        "verif-frag"
    }
    fn properties(&self) -> &'static [&'static str] {
        &["C17"]
    }
    fn run(&self, _prop: &str, ctx: &mut RunCtx) -> RunResult {
        // First choice of the run: which layer.  Layer 2 costs ~10x a layer-1 run.
        let layer2 = ctx.ch.chance(1, 8);
        if layer2 {
            layer2::run(ctx)
        } else {
            layer1::run(ctx)
        }
    }
    fn budget(&self, _prop: &str, tier: Tier) -> Budget {
        match tier {
            Tier::Quick => Budget { runs: 120_000, wall_cap_s: 240 },
            Tier::Thorough => Budget { runs: 6_000_000, wall_cap_s: 1500 },
        }
    }
    fn classifier(&self) -> fn(&str, &str, &[String]) -> Option<&'static str> {
        classify
    }
    fn rule(&self, _prop: &str) -> String {
        "one run = one seeded history: drawn queue count, 1..Q+2 packets of boundary-directed sizes/MTUs fragmented by the real Fragmenter, \
         frames delivered to the real Defragmenter by a simulated link (drop/dup/reorder/interleave, optionally a hostile peer forging frames), \
         or (layer 2, 1 run in 8) packets through real EdgeTunClientState<->EdgeTunServerState over a lossy datagram link. \
         A run is non-trivial iff at least one reassembled packet was judged by the integrity oracle; distinct = distinct FNV hash of the abstract event trace"
            .into()
    }
    fn real_components(&self, _prop: &str) -> Vec<&'static str> {
        vec!["anapaya_edge_tun::fragmenting::Fragmenter", "anapaya_edge_tun::fragmenting::Defragmenter", "anapaya_edge_tun::data::client_state::EdgeTunClientState", "anapaya_edge_tun::data::server::EdgeTunServerState", "ana-gotatun Tunn (Noise handshake, AEAD, anti-replay window)"]
    }
    fn stub_components(&self, _prop: &str) -> Vec<&'static str> {
        vec!["link between fragmenter and defragmenter (simulator-owned in-flight multiset)", "hostile peer (frame forger)", "datagram network between tunnel client and server", "authorisation / inbound-policy callbacks (allow all)"]
    }
    fn assumptions(&self, _prop: &str) -> Vec<&'static str> {
        vec![
            "gotatun reads the real monotonic clock; runs take milliseconds so WireGuard timers (rekey, expiry) never fire; timer-driven behaviour is out of scope",
            "WireGuard ephemeral keys come from the OS RNG; traces carry abstract outcomes only, never ciphertext",
            "the Defragmenter's metrics histogram reads the real clock (metrics only, not observable by the oracles)",
            "exploration: a clean batch is evidence, not proof",
        ]
    }
    fn required_reach(&self, _prop: &str) -> Vec<&'static str> {
        vec!["drop", "dup", "reorder", "forge", "evicted-or-too-old", "emit-multiframe", "completeness-premise", "l2-delivered", "l2-replay-suppressed"]
    }
}

fn main() {
    simcore::runner::main_for(&FragEngine)
}
