//! A counting allocator: per-thread net allocated bytes (runs are one-thread-each, so per-thread = per-run).

use std::alloc::{GlobalAlloc, Layout, System};
use std::cell::Cell;

thread_local! {
    static NET: Cell<i64> = const { Cell::new(0) };
}

pub struct Counting;

unsafe impl GlobalAlloc for Counting {
    unsafe fn alloc(&self, l: Layout) -> *mut u8 {
        let _ = NET.try_with(|n| n.set(n.get() + l.size() as i64));
        unsafe { System.alloc(l) }
    }
    unsafe fn dealloc(&self, p: *mut u8, l: Layout) {
        let _ = NET.try_with(|n| n.set(n.get() - l.size() as i64));
        unsafe { System.dealloc(p, l) }
    }
    unsafe fn alloc_zeroed(&self, l: Layout) -> *mut u8 {
        let _ = NET.try_with(|n| n.set(n.get() + l.size() as i64));
        unsafe { System.alloc_zeroed(l) }
    }
    unsafe fn realloc(&self, p: *mut u8, l: Layout, new: usize) -> *mut u8 {
        let _ = NET.try_with(|n| n.set(n.get() + new as i64 - l.size() as i64));
        unsafe { System.realloc(p, l, new) }
    }
}

pub fn net() -> i64 {
    NET.with(|n| n.get())
}
