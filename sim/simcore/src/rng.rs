//! Own SplitMix64 / xoshiro256** so the stream is stable across crate versions.

#[derive(Clone)]
pub struct Rng {
    s: [u64; 4],
}

pub fn splitmix(x: &mut u64) -> u64 {
    *x = x.wrapping_add(0x9E3779B97F4A7C15);
    let mut z = *x;
    z = (z ^ (z >> 30)).wrapping_mul(0xBF58476D1CE4E5B9);
    z = (z ^ (z >> 27)).wrapping_mul(0x94D049BB133111EB);
    z ^ (z >> 31)
}

/// Per-run seed from (VERIF_SEED, run index).
pub fn mix(seed: u64, idx: u64) -> u64 {
    let mut x = seed ^ idx.wrapping_mul(0xD6E8FEB86659FD93).rotate_left(17);
    let a = splitmix(&mut x);
    let b = splitmix(&mut x);
    a ^ b.rotate_left(23)
}

impl Rng {
    pub fn new(seed: u64) -> Self {
        let mut x = seed;
        let s = [splitmix(&mut x), splitmix(&mut x), splitmix(&mut x), splitmix(&mut x)];
        Rng { s }
    }

    pub fn next(&mut self) -> u64 {
        let r = self.s[1].wrapping_mul(5).rotate_left(7).wrapping_mul(9);
        let t = self.s[1] << 17;
        self.s[2] ^= self.s[0];
        self.s[3] ^= self.s[1];
        self.s[1] ^= self.s[2];
        self.s[0] ^= self.s[3];
        self.s[2] ^= t;
        self.s[3] = self.s[3].rotate_left(45);
        r
    }

    /// Uniform in 0..bound (bound ≥ 1), by 128-bit multiply (tiny bias is irrelevant here).
    pub fn below(&mut self, bound: u64) -> u64 {
        ((self.next() as u128 * bound as u128) >> 64) as u64
    }
}
