//! simcore — seed, choice stream, trace, replay, shrinking, evidence.
//!
//! One integer decides everything: `VERIF_SEED` → per-run seed `mix(VERIF_SEED, run_index)` →
//! xoshiro256** stream.  Every decision of a run is `Choices::draw(bound)`; in search mode the
//! stream is PRNG-backed and recorded, in replay mode it is read from a vector (exhausted ⇒ 0).
//! A run is a pure function of (code, property, choice vector).

pub mod rng;
pub mod runner;

use std::collections::BTreeMap;

pub use rng::Rng;

/// The recorded / replayed stream of decisions of one run.
pub struct Choices {
    rng: Option<Rng>,
    replay: Vec<u64>,
    pos: usize,
    pub recorded: Vec<u64>,
}

impl Choices {
    pub fn search(seed: u64) -> Self {
        Choices { rng: Some(Rng::new(seed)), replay: Vec::new(), pos: 0, recorded: Vec::new() }
    }

    pub fn replay(v: Vec<u64>) -> Self {
        Choices { rng: None, replay: v, pos: 0, recorded: Vec::new() }
    }

    /// A value in `0..bound` (`bound == 0` is treated as 1).  0 is always the "simplest" choice:
    /// generators are written so that 0 means "no fault", "first/smallest option".
    pub fn draw(&mut self, bound: u64) -> u64 {
        let bound = bound.max(1);
        let v = match &mut self.rng {
            Some(r) => r.below(bound),
            None => {
                let v = self.replay.get(self.pos).copied().unwrap_or(0);
                self.pos += 1;
                if v >= bound { v % bound } else { v }
            }
        };
        self.recorded.push(v);
        v
    }

    /// Inclusive range.
    pub fn range(&mut self, lo: u64, hi: u64) -> u64 {
        debug_assert!(hi >= lo);
        lo + self.draw(hi - lo + 1)
    }

    /// True with probability `num/den`.  The *false* outcome is value 0 (so that shrinking removes faults).
    pub fn chance(&mut self, num: u64, den: u64) -> bool {
        // v in 0..den ; true iff v >= den-num
        let v = self.draw(den);
        v >= den.saturating_sub(num)
    }

    pub fn pick<'a, T>(&mut self, xs: &'a [T]) -> &'a T {
        &xs[self.draw(xs.len() as u64) as usize]
    }

    pub fn idx(&mut self, len: usize) -> usize {
        self.draw(len as u64) as usize
    }

    /// A full-range u64 (e.g. for payload tags, hash seeds).
    pub fn u64(&mut self) -> u64 {
        self.draw(u64::MAX)
    }
}

/// A violation of one oracle clause.
#[derive(Clone, Debug)]
pub struct Violation {
    pub clause: String,
    pub detail: String,
    /// Index into the trace at which the violation was detected.
    pub event: usize,
    /// The named causal pattern the engine classified the violation as (for known findings).
    pub pattern: Option<String>,
}

/// Marker returned by `RunCtx::violate` for an un-listed violation: unwind out of the run.
#[derive(Debug)]
pub struct Abort;

pub type RunResult = Result<(), Abort>;

/// Per-run context handed to the engine.
pub struct RunCtx {
    pub ch: Choices,
    pub trace: Vec<String>,
    /// fault kind → number of times it actually fired in this run
    pub faults: BTreeMap<&'static str, u64>,
    /// "rare branch reached" probes
    pub probes: BTreeMap<&'static str, u64>,
    /// simulated time covered by this run, milliseconds
    pub sim_ms: u64,
    /// set by the engine when at least one non-vacuous oracle premise was evaluated
    pub nontrivial: bool,
    /// oracle evaluations (non-vacuous)
    pub oracle_evals: u64,
    pub(crate) open_patterns: Vec<String>,
    pub known_hits: BTreeMap<String, (u64, String)>,
    pub violation: Option<Violation>,
    pub classify: fn(&str, &str, &[String]) -> Option<&'static str>,
}

impl RunCtx {
    pub fn new(ch: Choices, open_patterns: Vec<String>, classify: fn(&str, &str, &[String]) -> Option<&'static str>) -> Self {
        RunCtx {
            ch,
            trace: Vec::new(),
            faults: BTreeMap::new(),
            probes: BTreeMap::new(),
            sim_ms: 0,
            nontrivial: false,
            oracle_evals: 0,
            open_patterns,
            known_hits: BTreeMap::new(),
            violation: None,
            classify,
        }
    }

    /// Is `pattern` listed as an open known finding?
    pub fn is_open(&self, pattern: &str) -> bool {
        self.open_patterns.iter().any(|o| o == pattern)
    }

    pub fn open_list(&self) -> Vec<String> {
        self.open_patterns.clone()
    }

    /// Count a hit of an open known finding that the engine matched itself.
    pub fn note_known(&mut self, pattern: &str, detail: String) {
        let e = self.known_hits.entry(pattern.to_string()).or_insert((0, detail));
        e.0 += 1;
    }

    #[inline]
    pub fn log(&mut self, s: String) {
        self.trace.push(s);
    }

    #[inline]
    pub fn fault(&mut self, kind: &'static str) {
        *self.faults.entry(kind).or_insert(0) += 1;
    }

    #[inline]
    pub fn probe(&mut self, name: &'static str) {
        *self.probes.entry(name).or_insert(0) += 1;
    }

    #[inline]
    pub fn checked(&mut self) {
        self.nontrivial = true;
        self.oracle_evals += 1;
    }

    /// Report a violated oracle clause.  If the engine classifies it as a causal pattern listed as an
    /// *open* known finding the run continues (`Ok`), otherwise the run is aborted.
    pub fn violate(&mut self, clause: &str, detail: String) -> RunResult {
        let pattern = (self.classify)(clause, &detail, &self.trace);
        if let Some(p) = pattern {
            if self.open_patterns.iter().any(|o| o == p) {
                let e = self.known_hits.entry(p.to_string()).or_insert((0, detail.clone()));
                e.0 += 1;
                self.trace.push(format!("known-finding {p}: {clause}"));
                return Ok(());
            }
        }
        self.trace.push(format!("VIOLATION {clause}: {detail}"));
        self.violation = Some(Violation {
            clause: clause.to_string(),
            detail,
            event: self.trace.len() - 1,
            pattern: pattern.map(|s| s.to_string()),
        });
        Err(Abort)
    }
}

pub fn fnv1a(data: &[u8]) -> u64 {
    let mut h: u64 = 0xcbf29ce484222325;
    for b in data {
        h ^= *b as u64;
        h = h.wrapping_mul(0x100000001b3);
    }
    h
}

pub fn trace_hash(trace: &[String]) -> u64 {
    let mut h: u64 = 0xcbf29ce484222325;
    for l in trace {
        for b in l.as_bytes() {
            h ^= *b as u64;
            h = h.wrapping_mul(0x100000001b3);
        }
        h ^= 0xff;
        h = h.wrapping_mul(0x100000001b3);
    }
    h
}

#[derive(Clone, Copy, PartialEq, Eq, Debug)]
pub enum Tier {
    Quick,
    Thorough,
}

impl Tier {
    pub fn as_str(&self) -> &'static str {
        match self {
            Tier::Quick => "quick",
            Tier::Thorough => "thorough",
        }
    }
}

pub struct Budget {
    pub runs: u64,
    pub wall_cap_s: u64,
}

/// What an engine tells the runner about itself.
pub trait Engine: Sync + Send {
    fn name(&self) -> &'static str;
    fn properties(&self) -> &'static [&'static str];
    /// Execute one run for `prop`.  All nondeterminism must come from `ctx.ch`.
    fn run(&self, prop: &str, ctx: &mut RunCtx) -> RunResult;
    fn budget(&self, prop: &str, tier: Tier) -> Budget;
    /// Classify a violation into a named causal pattern (used for known findings).
    fn classifier(&self) -> fn(&str, &str, &[String]) -> Option<&'static str> {
        |_, _, _| None
    }
    fn rule(&self, prop: &str) -> String;
    fn real_components(&self, prop: &str) -> Vec<&'static str>;
    fn stub_components(&self, prop: &str) -> Vec<&'static str>;
    fn assumptions(&self, prop: &str) -> Vec<&'static str>;
    /// Probes / fault kinds that must be non-zero in a batch for the batch to be considered to have reached
    /// what it claims (reported in evidence; a zero is a harness warning, not a violation).
    fn required_reach(&self, _prop: &str) -> Vec<&'static str> {
        Vec::new()
    }
    /// per-thread initialisation (e.g. install thread-locals); called once per worker thread.
    fn thread_init(&self) {}
}
