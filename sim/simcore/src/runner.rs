//! Batch runner, shrinking, replay files, known findings, evidence, CLI.

use std::cell::RefCell;
use std::collections::{BTreeMap, HashSet};
use std::path::{Path, PathBuf};
use std::sync::atomic::{AtomicU64, Ordering};
use std::sync::Mutex;
use std::time::{Duration, Instant};

use serde_json::{json, Value};

use crate::{rng, trace_hash, Choices, Engine, RunCtx, Tier, Violation};

thread_local! {
    static LAST_PANIC: RefCell<Option<String>> = const { RefCell::new(None) };
    static QUIET_PANICS: RefCell<bool> = const { RefCell::new(false) };
}

fn install_panic_hook() {
    let default = std::panic::take_hook();
    std::panic::set_hook(Box::new(move |info| {
        let quiet = QUIET_PANICS.with(|q| *q.borrow());
        let msg = if let Some(s) = info.payload().downcast_ref::<&str>() {
            s.to_string()
        } else if let Some(s) = info.payload().downcast_ref::<String>() {
            s.clone()
        } else {
            "panic".to_string()
        };
        let loc = info.location().map(|l| format!("{}:{}", l.file(), l.line())).unwrap_or_default();
        LAST_PANIC.with(|p| *p.borrow_mut() = Some(format!("{msg} @ {loc}")));
        if !quiet {
            default(info);
        }
    }));
}

/// Make panics on this thread silent and captured (used by actor threads spawned by engines).
pub fn quiet_panics_on_this_thread() {
    QUIET_PANICS.with(|q| *q.borrow_mut() = true);
}

pub fn take_last_panic() -> Option<String> {
    LAST_PANIC.with(|p| p.borrow_mut().take())
}

pub fn verif_root() -> PathBuf {
    std::env::var("VERIF_ROOT").map(PathBuf::from).unwrap_or_else(|_| PathBuf::from("/verif"))
}

#[derive(Clone, Debug)]
pub struct KnownFinding {
    pub property: String,
    pub pattern: String,
    pub what: String,
    pub replay: Option<String>,
}

pub fn load_open_findings(prop: &str) -> Vec<KnownFinding> {
    let p = verif_root().join("known_findings.json");
    let Ok(s) = std::fs::read_to_string(&p) else { return Vec::new() };
    let v: Value = match serde_json::from_str(&s) {
        Ok(v) => v,
        Err(e) => harness_error(&format!("known_findings.json does not parse: {e}")),
    };
    let mut out = Vec::new();
    for f in v["findings"].as_array().cloned().unwrap_or_default() {
        if f["property"].as_str() == Some(prop) && f["status"].as_str() == Some("open") {
            out.push(KnownFinding {
                property: prop.to_string(),
                pattern: f["pattern"].as_str().unwrap_or("").to_string(),
                what: f["what"].as_str().unwrap_or("").to_string(),
                replay: f["replay"].as_str().map(|s| s.to_string()),
            });
        }
    }
    out
}

pub fn harness_error(msg: &str) -> ! {
    eprintln!("HARNESS-ERROR: {msg}");
    std::process::exit(2);
}

pub struct RunOutcome {
    pub ctx: RunCtx,
}

/// Execute one run from a choice source.  Panics inside the engine become violations of clause "panic".
pub fn execute(engine: &dyn Engine, prop: &str, ch: Choices, open: &[String]) -> RunCtx {
    let mut ctx = RunCtx::new(ch, open.to_vec(), engine.classifier());
    QUIET_PANICS.with(|q| *q.borrow_mut() = true);
    let r = std::panic::catch_unwind(std::panic::AssertUnwindSafe(|| engine.run(prop, &mut ctx)));
    QUIET_PANICS.with(|q| *q.borrow_mut() = false);
    match r {
        Ok(Ok(())) => {}
        Ok(Err(_abort)) => {
            if ctx.violation.is_none() {
                // engine aborted without a violation: harness bug
                ctx.violation = Some(Violation {
                    clause: "harness/abort-without-violation".into(),
                    detail: String::new(),
                    event: ctx.trace.len(),
                    pattern: None,
                });
            }
        }
        Err(_) => {
            let msg = take_last_panic().unwrap_or_else(|| "panic".into());
            // a panic may itself be a listed known finding
            let pattern = (ctx.classify)("panic", &msg, &ctx.trace);
            let known = pattern.map(|p| open.iter().any(|o| o == p)).unwrap_or(false);
            if known {
                let p = pattern.unwrap().to_string();
                let e = ctx.known_hits.entry(p.clone()).or_insert((0, msg.clone()));
                e.0 += 1;
                ctx.trace.push(format!("known-finding {p}: panic"));
            } else {
                ctx.trace.push(format!("VIOLATION panic: {msg}"));
                ctx.violation = Some(Violation {
                    clause: "panic".into(),
                    detail: msg,
                    event: ctx.trace.len() - 1,
                    pattern: pattern.map(|s| s.to_string()),
                });
            }
        }
    }
    ctx
}

#[derive(Default)]
struct Agg {
    runs: u64,
    nontrivial_runs: u64,
    hashes_nontrivial: HashSet<u64>,
    hashes_all: HashSet<u64>,
    faults: BTreeMap<String, u64>,
    probes: BTreeMap<String, u64>,
    sim_ms: u128,
    oracle_evals: u64,
    choices_total: u64,
    known_hits: BTreeMap<String, (u64, String)>,
    samples: Vec<(u64, Value)>,
    violations: Vec<(u64, Vec<u64>, Violation, Vec<String>)>,
}

impl Agg {
    fn merge(&mut self, o: Agg) {
        self.runs += o.runs;
        self.nontrivial_runs += o.nontrivial_runs;
        self.hashes_nontrivial.extend(o.hashes_nontrivial);
        self.hashes_all.extend(o.hashes_all);
        for (k, v) in o.faults {
            *self.faults.entry(k).or_insert(0) += v;
        }
        for (k, v) in o.probes {
            *self.probes.entry(k).or_insert(0) += v;
        }
        self.sim_ms += o.sim_ms;
        self.oracle_evals += o.oracle_evals;
        self.choices_total += o.choices_total;
        for (k, v) in o.known_hits {
            let e = self.known_hits.entry(k).or_insert((0, v.1.clone()));
            e.0 += v.0;
        }
        self.samples.extend(o.samples);
        self.violations.extend(o.violations);
    }
}

fn threads() -> usize {
    std::env::var("VERIF_THREADS").ok().and_then(|s| s.parse().ok()).unwrap_or_else(|| {
        std::thread::available_parallelism().map(|n| n.get()).unwrap_or(4).min(16)
    })
}

fn sample_value(idx: u64, ctx: &RunCtx) -> Value {
    let n = ctx.trace.len();
    let shown: Vec<&String> = ctx.trace.iter().take(48).collect();
    json!({
        "run_index": idx,
        "choices": ctx.ch.recorded.len(),
        "events": n,
        "trace_head": shown,
        "trace_hash": format!("{:016x}", trace_hash(&ctx.trace)),
    })
}

pub struct BatchCfg {
    pub seed: u64,
    pub runs: u64,
    pub wall_cap_s: u64,
    pub threads: usize,
}

fn run_batch(engine: &dyn Engine, prop: &str, cfg: &BatchCfg, open: &[String]) -> (Agg, bool) {
    let next = AtomicU64::new(0);
    let stop_at = AtomicU64::new(u64::MAX);
    let start = Instant::now();
    let capped = AtomicU64::new(0);
    let total = Mutex::new(Agg::default());
    // progress watchdog: a run that never returns (a self-deadlock in a harness) must end the check as a harness error
    // instead of hanging it; reads a counter only, draws nothing
    let done = AtomicU64::new(0);
    let finished = AtomicU64::new(0);
    std::thread::scope(|s| {
        s.spawn(|| {
            let mut last = (0u64, Instant::now());
            while finished.load(Ordering::SeqCst) < cfg.threads as u64 {
                std::thread::sleep(Duration::from_millis(500));
                let d = done.load(Ordering::SeqCst);
                if d != last.0 {
                    last = (d, Instant::now());
                } else if last.1.elapsed().as_secs() >= 600 {
                    println!("HARNESS-ERROR: no simulated run finished within 600 s of real time (run index around {}): a harness thread is stuck", next.load(Ordering::SeqCst));
                    std::process::exit(2);
                }
            }
        });
        for _ in 0..cfg.threads {
            s.spawn(|| {
                engine.thread_init();
                let mut agg = Agg::default();
                loop {
                    let i = next.fetch_add(1, Ordering::SeqCst);
                    if i >= cfg.runs || i > stop_at.load(Ordering::SeqCst) {
                        break;
                    }
                    if start.elapsed().as_secs() >= cfg.wall_cap_s {
                        capped.store(1, Ordering::SeqCst);
                        break;
                    }
                    let ch = Choices::search(rng::mix(cfg.seed, i));
                    let ctx = execute(engine, prop, ch, open);
                    done.fetch_add(1, Ordering::SeqCst);
                    agg.runs += 1;
                    let h = trace_hash(&ctx.trace);
                    agg.hashes_all.insert(h);
                    if ctx.nontrivial {
                        agg.nontrivial_runs += 1;
                        agg.hashes_nontrivial.insert(h);
                    }
                    for (k, v) in &ctx.faults {
                        *agg.faults.entry(k.to_string()).or_insert(0) += v;
                    }
                    for (k, v) in &ctx.probes {
                        *agg.probes.entry(k.to_string()).or_insert(0) += v;
                    }
                    agg.sim_ms += ctx.sim_ms as u128;
                    agg.oracle_evals += ctx.oracle_evals;
                    agg.choices_total += ctx.ch.recorded.len() as u64;
                    for (k, v) in &ctx.known_hits {
                        let e = agg.known_hits.entry(k.clone()).or_insert((0, v.1.clone()));
                        e.0 += v.0;
                    }
                    if i < 3 {
                        agg.samples.push((i, sample_value(i, &ctx)));
                    }
                    if let Some(v) = ctx.violation.clone() {
                        stop_at.fetch_min(i, Ordering::SeqCst);
                        agg.violations.push((i, ctx.ch.recorded.clone(), v, ctx.trace.clone()));
                    }
                }
                total.lock().unwrap().merge(agg);
                finished.fetch_add(1, Ordering::SeqCst);
            });
        }
    });
    let mut agg = total.into_inner().unwrap();
    agg.samples.sort_by_key(|s| s.0);
    agg.violations.sort_by_key(|v| v.0);
    (agg, capped.load(Ordering::SeqCst) != 0)
}

/// Shrink a failing choice vector while the same clause (and pattern) still fires.
pub fn shrink(
    engine: &dyn Engine,
    prop: &str,
    mut best: Vec<u64>,
    target: &Violation,
    open: &[String],
    max_tests: u64,
    max_secs: u64,
) -> (Vec<u64>, u64) {
    let start = Instant::now();
    let mut tests = 0u64;
    let same = |v: &Option<Violation>| -> bool {
        match v {
            Some(v) => v.clause == target.clause && v.pattern == target.pattern,
            None => false,
        }
    };
    // returns the normalised (recorded) vector if the candidate still fails the same way
    let try_vec = |cand: &[u64], tests: &mut u64| -> Option<Vec<u64>> {
        *tests += 1;
        let ctx = execute(engine, prop, Choices::replay(cand.to_vec()), open);
        if same(&ctx.violation) {
            let mut rec = ctx.ch.recorded.clone();
            // strip trailing zeros (exhausted replay yields 0 anyway)
            while rec.last() == Some(&0) {
                rec.pop();
            }
            Some(rec)
        } else {
            None
        }
    };
    if let Some(n) = try_vec(&best, &mut tests) {
        best = n;
    } else {
        return (best, tests); // not reproducible: leave as is; caller will notice on replay
    }
    let over = |tests: u64| tests >= max_tests || start.elapsed().as_secs() >= max_secs;
    let mut progress = true;
    while progress && !over(tests) {
        progress = false;
        // 1. delete chunks
        let mut size = (best.len() / 2).max(1);
        loop {
            let mut i = best.len();
            while i > 0 && !over(tests) {
                let lo = i.saturating_sub(size);
                let mut cand = best.clone();
                cand.drain(lo..i);
                if let Some(n) = try_vec(&cand, &mut tests) {
                    if n.len() < best.len() || n < best {
                        best = n;
                        progress = true;
                        i = i.min(best.len());
                        continue;
                    }
                }
                i = lo;
            }
            if size == 1 || over(tests) {
                break;
            }
            size /= 2;
        }
        // 2. zero, then lower values
        let mut i = 0;
        while i < best.len() && !over(tests) {
            if best[i] != 0 {
                let mut cand = best.clone();
                cand[i] = 0;
                if let Some(n) = try_vec(&cand, &mut tests) {
                    best = n;
                    progress = true;
                } else {
                    // binary descent
                    let mut lo = 0u64; // known not-failing (or untested) lower bound
                    let mut hi = best[i]; // failing
                    while hi - lo > 1 && !over(tests) {
                        let mid = lo + (hi - lo) / 2;
                        let mut cand = best.clone();
                        if i >= cand.len() {
                            break;
                        }
                        cand[i] = mid;
                        if let Some(n) = try_vec(&cand, &mut tests) {
                            if n.len() <= best.len() {
                                best = n;
                                progress = true;
                            }
                            hi = mid;
                            if i >= best.len() || best[i] != mid {
                                break;
                            }
                        } else {
                            lo = mid;
                        }
                    }
                }
            }
            i += 1;
        }
    }
    (best, tests)
}

fn write_replay(
    engine: &dyn Engine,
    prop: &str,
    seed: u64,
    run_index: u64,
    choices: &[u64],
    ctx: &RunCtx,
    dir: &Path,
    prefix: &str,
) -> PathBuf {
    let v = ctx.violation.as_ref().expect("violation");
    std::fs::create_dir_all(dir).ok();
    let clause_slug: String = v.clause.chars().map(|c| if c.is_ascii_alphanumeric() { c } else { '-' }).collect();
    let path = dir.join(format!("{prefix}{clause_slug}-{seed}-{run_index}.json"));
    let j = json!({
        "engine": engine.name(),
        "property": prop,
        "clause": v.clause,
        "pattern": v.pattern,
        "detail": v.detail,
        "seed": seed,
        "run_index": run_index,
        "choices": choices,
        "trace": ctx.trace,
    });
    std::fs::write(&path, serde_json::to_string_pretty(&j).unwrap()).unwrap_or_else(|e| harness_error(&format!("cannot write replay: {e}")));
    path
}

/// Re-execute a replay file. Returns (reproduced, ctx).
pub fn replay_file(engine: &dyn Engine, path: &Path) -> (bool, RunCtx, Value) {
    let s = std::fs::read_to_string(path).unwrap_or_else(|e| harness_error(&format!("cannot read {}: {e}", path.display())));
    let j: Value = serde_json::from_str(&s).unwrap_or_else(|e| harness_error(&format!("replay file does not parse: {e}")));
    let prop = j["property"].as_str().unwrap_or("").to_string();
    let choices: Vec<u64> = j["choices"].as_array().map(|a| a.iter().map(|x| x.as_u64().unwrap_or(0)).collect()).unwrap_or_default();
    // every open finding other than the file's own pattern stays open, exactly as in the search that produced it
    let open: Vec<String> = load_open_findings(&prop).iter().map(|f| f.pattern.clone()).filter(|p| Some(p.as_str()) != j["pattern"].as_str()).collect();
    let ctx = execute(engine, &prop, Choices::replay(choices), &open);
    let ok = match &ctx.violation {
        Some(v) => Some(v.clause.as_str()) == j["clause"].as_str() && v.pattern.as_deref() == j["pattern"].as_str(),
        None => false,
    };
    (ok, ctx, j)
}

fn evidence_path(prop: &str) -> PathBuf {
    verif_root().join("evidence").join(format!("{prop}.json"))
}

#[allow(clippy::too_many_arguments)]
fn write_evidence(
    engine: &dyn Engine,
    prop: &str,
    tier: Tier,
    seed: u64,
    agg: &Agg,
    wall: f64,
    capped: bool,
    n_violations: u64,
    known_lines: &[String],
    threads: usize,
) {
    let mut missing = Vec::new();
    for r in engine.required_reach(prop) {
        let n = agg.faults.get(r).copied().unwrap_or(0) + agg.probes.get(r).copied().unwrap_or(0);
        if n == 0 {
            missing.push(r);
        }
    }
    let runs_per_hour = if wall > 0.0 { (agg.runs as f64 / wall * 3600.0) as u64 } else { 0 };
    let cov = json!({
        "evaluations": agg.runs,
        "distinct_nontrivial": agg.hashes_nontrivial.len(),
        "rule": engine.rule(prop),
        "samples": agg.samples.iter().map(|s| s.1.clone()).collect::<Vec<_>>(),
        "nontrivial_runs": agg.nontrivial_runs,
        "distinct_traces_all": agg.hashes_all.len(),
        "oracle_evaluations": agg.oracle_evals,
        "choices_drawn": agg.choices_total,
        "simulated_time_s": (agg.sim_ms / 1000) as u64,
        "runs_per_hour": runs_per_hour,
        "seeds_per_hour": runs_per_hour,
        "worker_threads": threads,
        "faults_fired": agg.faults,
        "probes_reached": agg.probes,
        "required_reach_missing": missing,
        "known_findings_hit": agg.known_hits.iter().map(|(k, v)| (k.clone(), json!({"hits": v.0, "example": v.1}))).collect::<BTreeMap<_, _>>(),
        "known_finding_lines": known_lines,
        "wall_capped": capped,
        "real_components": engine.real_components(prop),
        "stub_components": engine.stub_components(prop),
        "engine": engine.name(),
        "exhaustive": false,
    });
    let ev = json!({
        "property_id": prop,
        "tier": tier.as_str(),
        "seed": seed,
        "level": "exploration",
        "coverage": cov,
        "assumptions": engine.assumptions(prop),
        "wall_s": wall,
        "violations": n_violations,
    });
    let p = evidence_path(prop);
    std::fs::create_dir_all(p.parent().unwrap()).ok();
    std::fs::write(&p, serde_json::to_string_pretty(&ev).unwrap()).unwrap_or_else(|e| harness_error(&format!("cannot write evidence: {e}")));
}

fn env_u64(name: &str) -> Option<u64> {
    std::env::var(name).ok().and_then(|s| s.trim().parse().ok())
}

/// `check <prop> <tier>`: returns the process exit code.
pub fn check(engine: &dyn Engine, prop: &str, tier: Tier) -> i32 {
    let seed = env_u64("VERIF_SEED").unwrap_or(1);
    let mut b = engine.budget(prop, tier);
    if let Some(r) = env_u64("VERIF_RUNS") {
        b.runs = r;
    }
    if let Some(r) = env_u64("VERIF_WALL_CAP_S") {
        b.wall_cap_s = r;
    }
    let cfg = BatchCfg { seed, runs: b.runs, wall_cap_s: b.wall_cap_s, threads: threads() };
    println!("engine={} property={prop} tier={} VERIF_SEED={seed} runs={} threads={}", engine.name(), tier.as_str(), cfg.runs, cfg.threads);

    let findings = load_open_findings(prop);
    let open: Vec<String> = findings.iter().map(|f| f.pattern.clone()).collect();
    let mut known_lines = Vec::new();
    let mut reproduced: HashSet<String> = HashSet::new();
    // Each listed open finding is first re-demonstrated from its committed replay file.
    for f in &findings {
        if let Some(r) = &f.replay {
            let p = verif_root().join(r);
            if p.exists() {
                let (ok, ctx, _) = replay_file(engine, &p);
                let pat_ok = ctx.violation.as_ref().and_then(|v| v.pattern.clone()).as_deref() == Some(f.pattern.as_str());
                if ok && pat_ok {
                    reproduced.insert(f.pattern.clone());
                }
            }
        }
    }

    let t0 = Instant::now();
    let (agg, capped) = run_batch(engine, prop, &cfg, &open);
    let wall = t0.elapsed().as_secs_f64();

    for f in &findings {
        let hits = agg.known_hits.get(&f.pattern).map(|h| h.0).unwrap_or(0);
        if reproduced.contains(&f.pattern) || hits > 0 {
            let line = format!("KNOWN-FINDING: property={prop} {} [{}] (replay={}, hits in this batch={hits})", f.what, f.pattern, f.replay.clone().unwrap_or_default());
            println!("{line}");
            known_lines.push(line);
        } else {
            println!("NOTE: listed finding [{}] did not reproduce on this tree (replay file and search both clean)", f.pattern);
        }
    }

    let mut exit = 0;
    let mut n_viol = 0u64;
    if let Some((idx, choices, v, _trace)) = agg.violations.first() {
        n_viol = agg.violations.len() as u64;
        println!("violation in run {idx}: clause={} pattern={:?}: {}", v.clause, v.pattern, v.detail);
        let (small, tests) = shrink(engine, prop, choices.clone(), v, &open, 4000, 120);
        println!("shrunk {} → {} choices in {tests} replays", choices.len(), small.len());
        let ctx = execute(engine, prop, Choices::replay(small.clone()), &open);
        let (final_choices, final_ctx) = if ctx.violation.as_ref().map(|x| x.clause == v.clause).unwrap_or(false) {
            (small, ctx)
        } else {
            let ctx = execute(engine, prop, Choices::replay(choices.clone()), &open);
            (choices.clone(), ctx)
        };
        if final_ctx.violation.is_none() {
            harness_error(&format!("violation in run {idx} ({}) does not reproduce from its own recorded choice vector: nondeterminism in the harness", v.clause));
        }
        let dir = verif_root().join("replays").join(prop);
        let path = write_replay(engine, prop, seed, *idx, &final_choices, &final_ctx, &dir, "");
        // replay once in a fresh process
        let exe = std::env::current_exe().unwrap();
        let out = std::process::Command::new(exe).arg("replay").arg(&path).env("VERIF_REPLAY_QUIET", "1").output();
        match out {
            Ok(o) if o.status.code() == Some(1) => {}
            Ok(o) => harness_error(&format!(
                "fresh-process replay of {} did not reproduce (exit {:?}): {}",
                path.display(),
                o.status.code(),
                String::from_utf8_lossy(&o.stdout)
            )),
            Err(e) => harness_error(&format!("cannot spawn replay: {e}")),
        }
        for l in final_ctx.trace.iter().rev().take(12).collect::<Vec<_>>().into_iter().rev() {
            println!("  | {l}");
        }
        if v.clause.starts_with("harness/") {
            // the simulator could not finish the run (budget, internal inconsistency): not a verdict about the property
            println!("HARNESS-ERROR: property={prop} clause={} replay={}", v.clause, path.display());
            exit = 2;
        } else {
            println!("VIOLATION property={prop} replay={}", path.display());
            exit = 1;
        }
    }
    write_evidence(engine, prop, tier, seed, &agg, wall, capped, n_viol, &known_lines, cfg.threads);
    println!(
        "runs={} nontrivial={} distinct_nontrivial={} oracle_evals={} sim_time_s={} wall_s={:.1} faults={:?} probes={:?}",
        agg.runs,
        agg.nontrivial_runs,
        agg.hashes_nontrivial.len(),
        agg.oracle_evals,
        agg.sim_ms / 1000,
        wall,
        agg.faults,
        agg.probes
    );
    for r in engine.required_reach(prop) {
        let n = agg.faults.get(r).copied().unwrap_or(0) + agg.probes.get(r).copied().unwrap_or(0);
        if n == 0 {
            println!("WARNING: required reach '{r}' stayed at zero in this batch");
        }
    }
    if exit == 0 {
        println!("OK property={prop} held on everything explored");
    }
    exit
}

/// Determinism self-test: every seed twice in-process; prints a digest over all trace hashes so that
/// separate processes / thread counts can be compared by the caller.
pub fn determinism(engine: &dyn Engine, prop: &str, n: u64) -> i32 {
    let seed = env_u64("VERIF_SEED").unwrap_or(1);
    let open: Vec<String> = load_open_findings(prop).iter().map(|f| f.pattern.clone()).collect();
    let nthreads = threads();
    let next = AtomicU64::new(0);
    let results = Mutex::new(Vec::<(u64, u64, bool)>::new());
    std::thread::scope(|s| {
        for _ in 0..nthreads {
            s.spawn(|| {
                engine.thread_init();
                let mut local = Vec::new();
                loop {
                    let i = next.fetch_add(1, Ordering::SeqCst);
                    if i >= n {
                        break;
                    }
                    let a = execute(engine, prop, Choices::search(rng::mix(seed, i)), &open);
                    let b = execute(engine, prop, Choices::search(rng::mix(seed, i)), &open);
                    let c = execute(engine, prop, Choices::replay(a.ch.recorded.clone()), &open);
                    let (ha, hb, hc) = (trace_hash(&a.trace), trace_hash(&b.trace), trace_hash(&c.trace));
                    local.push((i, ha, ha == hb && ha == hc && a.ch.recorded == b.ch.recorded));
                    if !(ha == hb && ha == hc) {
                        eprintln!("DIVERGENCE prop={prop} run={i}: {ha:016x} {hb:016x} {hc:016x}");
                        for (k, (x, y)) in a.trace.iter().zip(b.trace.iter()).enumerate() {
                            if x != y {
                                eprintln!("  first diff at event {k}:\n    A: {x}\n    B: {y}");
                                break;
                            }
                        }
                        for (k, (x, y)) in a.trace.iter().zip(c.trace.iter()).enumerate() {
                            if x != y {
                                eprintln!("  first diff (replay) at event {k}:\n    A: {x}\n    R: {y}");
                                break;
                            }
                        }
                    }
                }
                results.lock().unwrap().extend(local);
            });
        }
    });
    let mut r = results.into_inner().unwrap();
    r.sort();
    let bad = r.iter().filter(|x| !x.2).count();
    let mut bytes = Vec::new();
    for (i, h, _) in &r {
        bytes.extend_from_slice(&i.to_le_bytes());
        bytes.extend_from_slice(&h.to_le_bytes());
    }
    println!("determinism engine={} prop={prop} seeds={n} threads={nthreads} divergent={bad} digest={:016x}", engine.name(), crate::fnv1a(&bytes));
    if bad > 0 { 2 } else { 0 }
}

pub fn main_for(engine: &dyn Engine) -> ! {
    install_panic_hook();
    let args: Vec<String> = std::env::args().skip(1).collect();
    let usage = || -> ! {
        eprintln!("usage: {} <prop> quick|thorough | replay <file> | determinism <prop> <n> | show <prop> <run_index>", engine.name());
        std::process::exit(2)
    };
    if args.is_empty() {
        usage();
    }
    let code = match args[0].as_str() {
        "replay" => {
            let Some(f) = args.get(1) else { usage() };
            let (ok, ctx, j) = replay_file(engine, Path::new(f));
            let quiet = std::env::var("VERIF_REPLAY_QUIET").is_ok();
            if !quiet {
                for l in &ctx.trace {
                    println!("{l}");
                }
            }
            if ok {
                // exact reproduction: same trace as recorded
                let rec: Vec<String> = j["trace"].as_array().map(|a| a.iter().map(|x| x.as_str().unwrap_or("").to_string()).collect()).unwrap_or_default();
                if rec != ctx.trace {
                    println!("NOTE: violation reproduced but the trace differs from the recorded one");
                }
                println!("VIOLATION property={} replay={f}", j["property"].as_str().unwrap_or(""));
                1
            } else {
                println!("replay did not reproduce clause {} (got {:?})", j["clause"], ctx.violation.as_ref().map(|v| &v.clause));
                0
            }
        }
        "determinism" => {
            let (Some(p), Some(n)) = (args.get(1), args.get(2)) else { usage() };
            determinism(engine, p, n.parse().unwrap_or(1000))
        }
        "show" => {
            let (Some(p), Some(n)) = (args.get(1), args.get(2)) else { usage() };
            let seed = env_u64("VERIF_SEED").unwrap_or(1);
            let open: Vec<String> = load_open_findings(p).iter().map(|f| f.pattern.clone()).collect();
            let ctx = execute(engine, p, Choices::search(rng::mix(seed, n.parse().unwrap_or(0))), &open);
            for l in &ctx.trace {
                println!("{l}");
            }
            println!("-- choices={} nontrivial={} faults={:?} probes={:?} violation={:?}", ctx.ch.recorded.len(), ctx.nontrivial, ctx.faults, ctx.probes, ctx.violation);
            0
        }
        "mkfinding" => {
            // mkfinding <prop> <pattern> <out-file> [max_runs]: search for a violation classified as <pattern> (with no open
            // findings), shrink it and write the replay file to <out-file>.  Used once, by hand, to create
            // the committed replay file of a known finding.
            let (Some(p), Some(pat), Some(out)) = (args.get(1), args.get(2), args.get(3)) else { usage() };
            let max: u64 = args.get(4).and_then(|s| s.parse().ok()).unwrap_or(200_000);
            let seed = env_u64("VERIF_SEED").unwrap_or(1);
            // every *other* open pattern stays open so the search reaches this one
            let open: Vec<String> = load_open_findings(p).iter().map(|f| f.pattern.clone()).filter(|x| x != pat).collect();
            let mut found = None;
            for i in 0..max {
                let ctx = execute(engine, p, Choices::search(rng::mix(seed, i)), &open);
                if let Some(v) = &ctx.violation {
                    if v.pattern.as_deref() == Some(pat.as_str()) {
                        found = Some((i, ctx.ch.recorded.clone(), v.clone()));
                        break;
                    }
                }
            }
            match found {
                None => {
                    println!("pattern {pat} not found in {max} runs");
                    1
                }
                Some((i, choices, v)) => {
                    let (small, tests) = shrink(engine, p, choices, &v, &open, 6000, 180);
                    let ctx = execute(engine, p, Choices::replay(small.clone()), &[]);
                    println!("found in run {i}; shrunk to {} choices in {tests} replays; violation now {:?}", small.len(), ctx.violation.as_ref().map(|v| (&v.clause, &v.pattern)));
                    let outp = PathBuf::from(out);
                    let dir = outp.parent().unwrap().to_path_buf();
                    let path = write_replay(engine, p, seed, i, &small, &ctx, &dir, "tmp-");
                    std::fs::rename(&path, &outp).unwrap();
                    for l in &ctx.trace {
                        println!("  | {l}");
                    }
                    0
                }
            }
        }
        p if engine.properties().contains(&p) => {
            let env_tier = std::env::var("VERIF_TIER").ok();
            let tier = match args.get(1).map(|s| s.as_str()).or(env_tier.as_deref()) {
                Some("thorough") => Tier::Thorough,
                _ => Tier::Quick,
            };
            check(engine, p, tier)
        }
        _ => usage(),
    };
    std::process::exit(code)
}
