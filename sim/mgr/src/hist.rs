//! Life-history runs of the real `MultiPathManager` (C05, C06, C07): a driver issues sends, lookup outcomes,
//! clock advances, issue reports and controller actions; oracles run at every quiescent point.

use std::collections::BTreeMap;
use std::sync::{Arc, Mutex};

use scion_stack::path::PathStrategy;
use scion_stack::path::manager::traits::{PathManager, PathPrefetcher, PathWaitError};
use scion_stack::path::manager::verif_shim::{self, PathSetProbe, VerifManagerConfig};
use scion_stack::path::manager::MultiPathManager;
use scion_stack::stack::scmp_handler::ScmpErrorReceiver;
use scion_stack::stack::socket::SendErrorReceiver;
use scion_stack::stack::ScionSocketSendError;
use sciparse::identifier::isd_asn::IsdAsn;
use sciparse::path::ScionPath;
use sciparse::dataplane_path::view::ScionDpPathViewExt;
use sciparse::payload::scmp::model::{ScmpErrorMessage, ScmpExternalInterfaceDown, ScmpInternalConnectivityDown};
use simcore::{RunCtx, RunResult};
use simrt::{ActorId, Sim, BASE_SECS};

use crate::world::*;

const NS: u64 = 1_000_000_000;

#[derive(Clone, Debug)]
pub enum HandRes {
    Path(ScionPath),
    None,
    Err(String),
}

#[derive(Clone, Debug)]
pub struct Handout {
    pub caller: usize,
    pub kind: &'static str,
    pub pair: Pair,
    pub t_ns: u64,
    /// instant of the call (the `now` the caller passed)
    pub t_call_ns: u64,
    /// scheduler step (baton hand-over count) at which the result was produced
    pub step: u64,
    pub res: HandRes,
}

/// An issue report as the oracle sees it.
#[derive(Clone, Debug, PartialEq)]
pub enum Report {
    ExtIfDown { asn: u64, ifid: u16, tag: u8 },
    IntConnDown { asn: u64, ing: u16, eg: u16, tag: u8 },
    FirstHop { ifid: u16 },
    /// a first-hop send failure reported for another local AS (the stack may serve several): concerns no path of this one
    FirstHopForeign { asn: u64, ifid: u16 },
}

impl Report {
    /// Reference matcher (`RefIssueMatch`): does the report concern the route?  Written from the SCMP semantics:
    /// external-interface-down (AS, if) concerns a path that leaves AS through `if`; internal-connectivity-down
    /// (AS, in, out) concerns a path that crosses AS from `in` to `out`; a first-hop send failure concerns a path
    /// whose first egress interface is `if`.
    pub fn concerns(&self, hops: &[Hop]) -> bool {
        match self {
            Report::ExtIfDown { asn, ifid, .. } => hops.iter().any(|h| h.asn == *asn && h.eg == *ifid && h.eg != 0),
            Report::IntConnDown { asn, ing, eg, .. } => hops.iter().any(|h| h.asn == *asn && h.ing == *ing && h.eg == *eg && h.ing != 0 && h.eg != 0),
            Report::FirstHop { ifid } => hops.first().map(|h| h.eg == *ifid).unwrap_or(false),
            Report::FirstHopForeign { .. } => false,
        }
    }
    pub fn penalty(&self) -> f64 {
        match self {
            Report::ExtIfDown { .. } | Report::IntConnDown { .. } => 1.0,
            Report::FirstHop { .. } | Report::FirstHopForeign { .. } => 0.4,
        }
    }
}

#[derive(Clone, Debug)]
pub struct Penalty {
    pub report: Report,
    pub t_ns: u64,
    /// scheduler step at which the report was handed to the manager
    pub step: u64,
    /// per destination: the instant the pair's worker was first free to process the report (it does not poll
    /// the issue channel while a lookup is outstanding and applies the full penalty at processing time)
    pub t_eff: Vec<Option<u64>>,
    /// false: the stack may have ignored it as a duplicate (an identical report lies within the dedup window, but the
    /// bounded issue memory may have forgotten it meanwhile): counts for upper bounds only
    pub certain: bool,
}

pub struct WorkerInfo {
    pub actor: ActorId,
    pub pair: Option<Pair>,
}

pub struct Hist<'a> {
    pub prop: &'a str,
    pub sim: Sim,
    pub cfg: VerifManagerConfig,
    pub mgr: Option<MultiPathManager<SimFetcher>>,
    pub fetch: Arc<Mutex<FetchState>>,
    pub routes: Vec<Route>,
    pub n_dst: usize,
    pub policies: PolicySet,
    pub probes: Arc<Mutex<BTreeMap<(u64, u64), (PathSetProbe, u64, Option<ActorId>)>>>,
    pub handouts: Arc<Mutex<Vec<Handout>>>,
    pub seen_handouts: usize,
    pub knowledge: Knowledge,
    pub workers: Vec<WorkerInfo>,
    pub callers: usize,
    /// fingerprint string → route index
    pub fp_route: BTreeMap<String, usize>,
    /// reports delivered so far (C07)
    pub penalties: Vec<Penalty>,
    pub reports_since_worker_step: usize,
    pub violations: Vec<(String, String)>,
    pub reqs_checked: usize,
    pub faults_enabled: bool,
    pub sim_start_ns: u64,
    /// last active path observed per pair at a quiescent point (fingerprint string)
    pub last_active: BTreeMap<(u64, u64), Option<String>>,
    pub lagged_possible: bool,
    pub open: Vec<String>,
    pub known_hits: Vec<(String, String)>,
    pub in_cache_since: BTreeMap<usize, (u64, u64)>,
    /// per (pair, fingerprint): since when (time, step) the path has been in the worker's cache at *every* state the
    /// worker published (not only at quiescent points: a path can leave and re-enter between two of them)
    pub member_since: Arc<Mutex<BTreeMap<((u64, u64), String), (u64, u64)>>>,
    pub reports_during_lookup: usize,
    /// every report ever handed to the stack (also duplicates)
    pub all_reports: Vec<Report>,
    /// stack mode: sends and failure reports go through the real path-aware socket (see stack.rs)
    pub stack: Option<crate::stack::StackSide>,
}

/// A path for which a metadata-dependent policy cannot be evaluated.
pub fn unevaluable(p: &ScionPath) -> bool {
    match p.metadata() {
        None => true,
        Some(m) => m.interfaces.as_ref().map(|i| i.is_empty()).unwrap_or(true),
    }
}

pub fn fp_str(p: &ScionPath) -> String {
    format!("{:#}", p.fingerprint())
}

fn abs_ns(unix_secs: u32) -> u64 {
    (unix_secs as u64).saturating_sub(BASE_SECS) * NS
}

impl<'a> Hist<'a> {
    pub fn new(prop: &'a str, sim: Sim) -> Self {
        // --- swarm configuration ---
        let faults_enabled = !sim.chance(1, 5); // a fixed fraction of runs is fault-free
        let n_dst = 1 + sim.idx(2);
        let routes = draw_routes(&sim, n_dst, if prop == "C07" { 5 } else { 6 });
        let policies = if prop == "C07" && sim.chance(2, 3) { PolicySet { desc: "none".into(), policies: vec![], needs_metadata: false } } else { draw_policies(&sim, &routes) };
        let mut cfg = draw_config(&sim, true);
        if prop == "C07" {
            // enough broadcast capacity that a report is never lost to lag between two worker steps
            cfg.issue_broadcast_size = cfg.issue_broadcast_size.max(10);
        }
        sim.log(format!("config {}", describe_config(&cfg)));
        sim.log(format!("policy {}", policies.desc));
        for (i, r) in routes.iter().enumerate() {
            let f = fp_str(&build_path(r, (BASE_SECS + 1000) as u32, true));
            sim.log(format!("route r{i}={} dst{} {}", &f[..4], r.dst, r.describe()));
        }
        let fetch = Arc::new(Mutex::new(FetchState::default()));
        let fetcher = SimFetcher { st: fetch.clone(), sim: sim.clone() };
        let mut strategy: PathStrategy = verif_shim::strategy_with_default_scorers();
        strategy.policies = policies.policies.clone();
        let mgr = MultiPathManager::new(cfg.build(), fetcher, strategy).expect("drawn configuration is valid");
        let probes: Arc<Mutex<BTreeMap<(u64, u64), (PathSetProbe, u64, Option<ActorId>)>>> = Arc::new(Mutex::new(BTreeMap::new()));
        let member_since: Arc<Mutex<BTreeMap<((u64, u64), String), (u64, u64)>>> = Arc::new(Mutex::new(BTreeMap::new()));
        {
            let probes = probes.clone();
            let member_since = member_since.clone();
            let sim2 = sim.clone();
            sim.set_probe_fn(Arc::new(move |key, v| {
                if key == "pathset" {
                    if let Some(p) = v.downcast_ref::<PathSetProbe>() {
                        let step = sim2.with(|s| s.steps);
                        let now_s = p.now.duration_since(std::time::UNIX_EPOCH).map(|d| d.as_secs()).unwrap_or(0) as i64;
                        let act = p.active.map(|f| format!("{f:#}"));
                        let cached: Vec<String> = p
                            .cached
                            .iter()
                            .map(|(path, score, _)| {
                                let f = format!("{:#}", path.fingerprint());
                                format!("{}{}@{}/{}", if Some(&f) == act.as_ref() { "*" } else { "" }, &f[..4], path.expiration().unwrap_or(0) as i64 - now_s, (score * 64.0).round() as i64)
                            })
                            .collect();
                        sim2.log(format!("probe {} ->{} active={} cached=[{}] fails={}", p.step, p.dst, act.as_deref().map(|f| f[..4].to_string()).unwrap_or("-".into()), cached.join(" "), p.failed_attempts));
                        {
                            let key = pair_key((p.src, p.dst));
                            let present: Vec<String> = p.cached.iter().map(|(path, _, _)| format!("{:#}", path.fingerprint())).collect();
                            let mut ms = member_since.lock().unwrap();
                            // a new worker for the pair starts with an empty cache: what its predecessor held is void
                            let me = simrt::current_actor().map(|a| a as u64).unwrap_or(u64::MAX);
                            let marker = (key, String::from("#worker"));
                            if ms.get(&marker).map(|v| v.0 != me).unwrap_or(true) {
                                ms.retain(|(k, _), _| *k != key);
                                ms.insert(marker.clone(), (me, 0));
                            }
                            ms.retain(|(k, f), _| *k != key || f == "#worker" || present.contains(f));
                            let now_ns = sim2.now_ns();
                            for f in present {
                                ms.entry((key, f)).or_insert((now_ns, step));
                            }
                        }
                        probes.lock().unwrap().insert(pair_key((p.src, p.dst)), (p.clone(), step, simrt::current_actor()));
                    }
                }
            }));
        }
        // a third of the life histories run in stack mode (not the pre-emptive C20 scenario, which drops the manager)
        let stack = if prop != "C20" && sim.chance(1, 3) {
            sim.log("stack mode: sends and reports go through UdpScionSocket over a simulated underlay".into());
            Some(crate::stack::StackSide::new(&sim, &mgr))
        } else {
            None
        };
        let mut fp_route = BTreeMap::new();
        for (i, r) in routes.iter().enumerate() {
            let p = build_path(r, (BASE_SECS + 1000) as u32, true);
            fp_route.insert(fp_str(&p), i);
        }
        Hist {
            prop,
            sim,
            cfg,
            mgr: Some(mgr),
            fetch,
            routes,
            n_dst,
            policies,
            probes,
            handouts: Arc::new(Mutex::new(Vec::new())),
            seen_handouts: 0,
            knowledge: Knowledge::default(),
            workers: Vec::new(),
            callers: 0,
            fp_route,
            penalties: Vec::new(),
            reports_since_worker_step: 0,
            violations: Vec::new(),
            reqs_checked: 0,
            faults_enabled,
            sim_start_ns: 0,
            last_active: BTreeMap::new(),
            lagged_possible: false,
            open: Vec::new(),
            known_hits: Vec::new(),
            in_cache_since: BTreeMap::new(),
            member_since,
            reports_during_lookup: 0,
            all_reports: Vec::new(),
            stack,
        }
    }

    pub fn now_secs(&self) -> u32 {
        (BASE_SECS + self.sim.now_ns() / NS) as u32
    }

    pub fn pair(&self, d: usize) -> Pair {
        (src_ia(), dst_ia(d))
    }

    fn mgr(&self) -> MultiPathManager<SimFetcher> {
        self.mgr.as_ref().expect("manager alive").clone()
    }

    // ------------------------------------------------------------------ operations

    pub fn op_send(&mut self, pair: Pair) -> ActorId {
        if self.stack.is_some() {
            return self.stack_send(pair);
        }
        let (mgr, out, sim) = (self.mgr(), self.handouts.clone(), self.sim.clone());
        let caller = self.callers;
        self.callers += 1;
        let now = self.sim.now();
        let t_call_ns = self.sim.now_ns();
        self.sim.log(format!("send c{caller} ->{}", pair.1));
        self.sim.spawn("caller", async move {
            let r = mgr.path_wait(pair.0, pair.1, now).await;
            let res = match r {
                Ok(p) => HandRes::Path(p),
                Err(PathWaitError::NoPathFound) => HandRes::Err("no-path".into()),
                Err(e) => HandRes::Err(format!("{e}").chars().take(60).collect()),
            };
            out.lock().unwrap().push(Handout { caller, kind: "send", pair, t_ns: sim.now_ns(), t_call_ns, step: sim.with(|s| s.steps), res });
            drop(mgr);
        })
    }

    /// A wait on the pair's handle (hook H9): like `op_send` up to obtaining the handle, then the caller gives its manager
    /// reference up and waits on the handle alone - the only kind of waiter during which the manager can be dropped.
    pub fn op_handle_wait(&mut self, pair: Pair) -> ActorId {
        let (mgr, out, sim) = (self.mgr(), self.handouts.clone(), self.sim.clone());
        let caller = self.callers;
        self.callers += 1;
        let t_call_ns = self.sim.now_ns();
        self.sim.log(format!("handle_wait c{caller} ->{}", pair.1));
        self.sim.spawn("caller", async move {
            let fut = scion_stack::path::manager::verif_shim::handle_wait(&mgr, pair.0, pair.1);
            drop(mgr);
            let res = match fut.await {
                Ok(p) => HandRes::Path(p),
                Err(e) => HandRes::Err(e.chars().take(60).collect()),
            };
            out.lock().unwrap().push(Handout { caller, kind: "handle", pair, t_ns: sim.now_ns(), t_call_ns, step: sim.with(|s| s.steps), res });
        })
    }

    pub fn op_try_send(&mut self, pair: Pair) -> ActorId {
        let (mgr, out, sim) = (self.mgr(), self.handouts.clone(), self.sim.clone());
        let caller = self.callers;
        self.callers += 1;
        let now = self.sim.now();
        let t_call_ns = self.sim.now_ns();
        self.sim.log(format!("try_send c{caller} ->{}", pair.1));
        self.sim.spawn("try", async move {
            let r = mgr.cached_path(pair.0, pair.1, now);
            let res = match r {
                Some(p) => HandRes::Path(p),
                None => HandRes::None,
            };
            out.lock().unwrap().push(Handout { caller, kind: "try", pair, t_ns: sim.now_ns(), t_call_ns, step: sim.with(|s| s.steps), res });
            drop(mgr);
        })
    }

    pub fn op_prefetch(&mut self, pair: Pair) {
        let mgr = self.mgr();
        self.sim.log(format!("prefetch ->{}", pair.1));
        self.sim.spawn("op", async move {
            mgr.prefetch_path(pair.0, pair.1);
            drop(mgr);
        });
    }

    pub fn op_stop(&mut self, pair: Pair) -> ActorId {
        let mgr = self.mgr();
        self.sim.log(format!("stop_managing ->{}", pair.1));
        let gc_now = self.sim.chance(1, 2);
        self.sim.spawn("op", async move {
            mgr.stop_managing_paths(pair.0, pair.1);
            if gc_now {
                verif_shim::collect_removed(&mgr);
            }
            drop(mgr);
        })
    }

    /// The concurrent map's deferred garbage collection runs: workers of removed pairs are released (cancelled).
    pub fn op_gc(&mut self) {
        if let Some(m) = &self.mgr {
            let n = verif_shim::collect_removed(m);
            self.sim.log(format!("gc released {n}"));
        }
    }

    pub fn op_report(&mut self, rep: Report) {
        self.all_reports.push(rep.clone());
        if self.stack.is_some() && !matches!(rep, Report::FirstHopForeign { .. }) {
            self.sim.log(format!("report via socket {rep:?}"));
            self.stack_report(&rep);
            self.penalties.push(Penalty { report: rep, t_ns: self.sim.now_ns(), step: self.sim.with(|s| s.steps), t_eff: vec![None; self.n_dst], certain: true });
            self.reports_since_worker_step += 1;
            return;
        }
        let mgr = self.mgr();
        self.sim.log(format!("report {rep:?}"));
        let some_path = build_path(&self.routes[0], (BASE_SECS + 1000) as u32, true);
        let r2 = rep.clone();
        self.sim.spawn("op", async move {
            match r2 {
                Report::ExtIfDown { asn, ifid, tag } => {
                    let m = ScmpExternalInterfaceDown::new(ia_of(asn), ifid, vec![tag; 8 + tag as usize]);
                    mgr.report_scmp_error(ScmpErrorMessage::ExternalInterfaceDown(m), some_path.dp_path().as_ref());
                }
                Report::IntConnDown { asn, ing, eg, tag } => {
                    let m = ScmpInternalConnectivityDown::new(ia_of(asn), ing, eg, vec![tag; 8 + tag as usize]);
                    mgr.report_scmp_error(ScmpErrorMessage::InternalConnectivityDown(m), some_path.dp_path().as_ref());
                }
                Report::FirstHop { ifid } => {
                    let e = ScionSocketSendError::UnderlayNextHopUnreachable { isd_as: src_ia(), interface_id: ifid, address: None, msg: "simulated".into() };
                    mgr.report_send_error(&e);
                }
                Report::FirstHopForeign { asn, ifid } => {
                    let e = ScionSocketSendError::UnderlayNextHopUnreachable { isd_as: ia_of(asn), interface_id: ifid, address: None, msg: "simulated".into() };
                    mgr.report_send_error(&e);
                }
            }
            drop(mgr);
        });
        self.penalties.push(Penalty { report: rep, t_ns: self.sim.now_ns(), step: self.sim.with(|s| s.steps), t_eff: vec![None; self.n_dst], certain: true });
        self.reports_since_worker_step += 1;
    }

    /// Draw a lookup result for `pair`.
    pub fn draw_outcome(&mut self, pair: Pair, benign: bool) -> Outcome {
        let sim = self.sim.clone();
        let kind = if benign { 0 } else if !self.faults_enabled { sim.idx(2) * 3 } else { sim.idx(8) };
        let dst_idx = (pair.1.asn().0 - 0x200) as usize;
        let mine: Vec<usize> = (0..self.routes.len()).filter(|i| self.routes[*i].dst == dst_idx).collect();
        let thr = self.cfg.min_expiry_threshold.as_secs() as u32;
        let now = self.now_secs();
        match kind {
            // error
            1 if !benign => {
                sim.fault("lookup-error");
                Outcome::Err
            }
            // empty
            2 if !benign => {
                sim.fault("lookup-empty");
                Outcome::Ok(vec![])
            }
            _ => {
                let mut v = Vec::new();
                for ri in &mine {
                    // subset of routes (benign: all)
                    if !benign && sim.chance(1, 3) {
                        continue;
                    }
                    let life: u32 = if benign {
                        6 * 3600
                    } else {
                        let c = [3600u32, 1, 2, thr.saturating_sub(1).max(1), thr, thr + 1, thr + 30, 2 * thr + 7, 900, 6 * 3600];
                        c[sim.idx(c.len())]
                    };
                    // (C07: a path without metadata cannot be matched against interface reports by design; it is
                    // outside that property's claim)
                    let no_meta = !benign && self.faults_enabled && self.prop != "C07" && sim.chance(1, 10);
                    if no_meta {
                        sim.fault("path-without-metadata");
                    }
                    let expiry = now + life;
                    let mut p = build_path(&self.routes[*ri], expiry, !no_meta);
                    if no_meta {
                        // three ways in which a policy cannot be evaluated: no metadata at all, metadata without an
                        // interface list, metadata with an empty interface list
                        let full = build_path(&self.routes[*ri], expiry, true);
                        match sim.idx(3) {
                            0 => {}
                            k => {
                                if let Some(m) = full.metadata() {
                                    let mut m = m.clone();
                                    m.interfaces = if k == 1 { None } else { Some(Vec::new()) };
                                    p = ScionPath::new(full.src_ia(), full.dst_ia(), full.dp_path().clone(), Some(m), None);
                                    sim.probe(if k == 1 { "path-with-metadata-but-no-interface-list" } else { "path-with-empty-interface-list" });
                                }
                            }
                        }
                    }
                    v.push(p);
                    // duplicate fingerprint with a different expiry in the same result
                    if !benign && self.faults_enabled && sim.chance(1, 12) {
                        sim.fault("duplicate-fingerprint");
                        v.push(build_path(&self.routes[*ri], expiry + 50 + sim.draw(500) as u32, true));
                    }
                }
                // a path for another destination / already expired path smuggled in (byzantine lookup)
                if !benign && self.faults_enabled && sim.chance(1, 15) {
                    sim.fault("already-expired-path-in-result");
                    if let Some(ri) = mine.first() {
                        v.push(build_path(&self.routes[*ri], now.saturating_sub(sim.draw(3) as u32), true));
                    }
                }
                Outcome::Ok(v)
            }
        }
    }

    fn note_outcome(&mut self, pair: Pair, o: &Outcome) {
        if let Outcome::Ok(v) = o {
            let k = self.knowledge.by_pair.entry(pair_key(pair)).or_default();
            for p in v {
                let ok = self.policies.accepts(p);
                self.sim.probe(if ok { "policy-accepted-some" } else { "policy-rejected-some" });
                k.push((fp_str(p), p.expiration().unwrap_or(0), ok));
            }
        }
    }

    /// Complete the `k`-th outstanding lookup.
    pub fn op_complete(&mut self, k: usize, benign: bool) {
        let out = self.fetch.lock().unwrap().outstanding();
        if out.is_empty() {
            return;
        }
        let id = out[k % out.len()];
        let pair = self.fetch.lock().unwrap().reqs[id].pair;
        let o = self.draw_outcome(pair, benign);
        self.note_outcome(pair, &o);
        let desc = match &o {
            Outcome::Ok(v) => format!("ok[{}]", v.iter().map(|p| format!("{}@{}{}", self.route_name(p), p.expiration().unwrap_or(0) as i64 - self.now_secs() as i64, if unevaluable(p) { "!nometa" } else { "" })).collect::<Vec<_>>().join(",")),
            Outcome::Err => "error".into(),
        };
        self.sim.log(format!("lookup.done #{id} {desc}"));
        let w = {
            let mut st = self.fetch.lock().unwrap();
            st.reqs[id].outcome = Some(o);
            st.reqs[id].waker.take()
        };
        if let Some(w) = w {
            w.wake();
        }
    }

    /// Program the outcome of the *next* lookup in advance (it then completes without suspending).
    pub fn op_plan(&mut self, pair: Pair, benign: bool) {
        let o = self.draw_outcome(pair, benign);
        self.note_outcome(pair, &o);
        self.sim.log(format!("lookup.plan {}", match &o { Outcome::Ok(v) => format!("ok[{}]", v.len()), Outcome::Err => "error".into() }));
        self.fetch.lock().unwrap().planned.push_back((pair, o));
    }

    pub fn route_name(&self, p: &ScionPath) -> String {
        match self.fp_route.get(&fp_str(p)) {
            Some(i) => format!("r{i}"),
            None => "r?".into(),
        }
    }

    /// Advance the virtual clock to `target_ns`, firing each timer at its deadline and settling in between.
    pub fn advance_to(&mut self, target_ns: u64, ctx_steps: u64) -> RunResult2 {
        loop {
            match self.sim.next_timer() {
                Some(t) if t <= target_ns => {
                    self.sim.set_now(t);
                    self.settle_and_check(ctx_steps)?;
                }
                _ => break,
            }
        }
        self.sim.set_now(target_ns);
        self.settle_and_check(ctx_steps)
    }

    /// Candidate instants (ns) worth jumping to: the system's own deadlines and their neighbours.
    pub fn boundary_candidates(&self) -> Vec<u64> {
        let now = self.sim.now_ns();
        let mut c: Vec<u64> = Vec::new();
        if let Some(t) = self.sim.next_timer() {
            c.extend([t, t.saturating_sub(1_000_000), t + 1_000_000, t + NS]);
        }
        let thr = self.cfg.min_expiry_threshold.as_secs();
        for (_, v) in self.knowledge.by_pair.iter() {
            for (_, e, _) in v.iter().rev().take(6) {
                let e_ns = abs_ns(*e);
                for d in [0i64, -1, 1] {
                    c.push((e_ns as i64 + d * NS as i64).max(0) as u64);
                    c.push((e_ns as i64 - (thr * NS) as i64 + d * NS as i64).max(0) as u64);
                }
                c.push(e_ns.saturating_sub(1_000_000));
                c.push(e_ns + 1_000_000);
            }
        }
        let dd = self.cfg.issue_deduplication_window.as_nanos() as u64;
        if let Some(p) = self.penalties.last() {
            c.extend([p.t_ns + dd, (p.t_ns + dd).saturating_sub(1_000_000), p.t_ns + dd + 1_000_000, p.t_ns + dd + NS]);
            for hl in [1u64, 2, 5, 10, 20] {
                c.push(p.t_ns + hl * 90 * NS);
                c.push(p.t_ns + hl * 30 * NS);
            }
        }
        c.retain(|t| *t > now);
        c.sort();
        c.dedup();
        c
    }

    pub fn op_advance(&mut self, steps: u64) -> RunResult2 {
        let now = self.sim.now_ns();
        let cands = self.boundary_candidates();
        let mode = self.sim.idx(4);
        let target = if mode < 3 && !cands.is_empty() {
            let k = self.sim.idx(cands.len().min(24));
            cands[k]
        } else {
            // heavy-tailed random
            let mag = [NS / 2, 3 * NS, 30 * NS, 300 * NS, 3600 * NS, 6 * 3600 * NS];
            now + 1 + self.sim.draw(mag[self.sim.idx(mag.len())])
        };
        self.sim.fault("clock-advance");
        if cands.contains(&target) {
            self.sim.probe("clock-on-boundary");
        }
        self.sim.log(format!("clock +{}ms", (target - now) / 1_000_000));
        self.advance_to(target, steps)
    }

    // ------------------------------------------------------------------ settling + oracles

    pub fn settle_and_check(&mut self, max_steps: u64) -> RunResult2 {
        if !self.sim.settle(max_steps) {
            // Who is still running? A worker of the manager that takes step after step at one virtual instant never
            // suspends: it neither sleeps towards its next re-attempt nor issues one, so the re-attempt never comes.
            let r = self.sim.runnable();
            if !r.is_empty() && r.iter().all(|a| self.sim.actor_name(*a) == "path-set") {
                return Err((
                    "C06/refetch-too-late/worker-spins".into(),
                    format!("worker actor#{} keeps running at a fixed instant ({} steps, now at {}) without suspending or issuing a lookup: its next re-attempt never happens", r[0], max_steps, self.sim.actor_at(r[0])),
                ));
            }
            return Err(("harness/step-budget".into(), "actors still runnable after the step budget".into()));
        }
        if let Some((id, name, msg)) = self.sim.take_panic() {
            return Err(("panic".into(), format!("actor {name}#{id}: {msg}")));
        }
        // discover workers
        let n = self.sim.actor_count();
        for a in 0..n {
            if self.sim.actor_name(a) == "path-set" && !self.workers.iter().any(|w| w.actor == a) {
                self.workers.push(WorkerInfo { actor: a, pair: None });
            }
        }
        {
            let st = self.fetch.lock().unwrap();
            for w in self.workers.iter_mut() {
                if w.pair.is_none() {
                    if let Some(r) = st.reqs.iter().find(|r| r.actor == Some(w.actor)) {
                        w.pair = Some(r.pair);
                    }
                }
            }
        }
        // a finished worker's probe is void
        for w in &self.workers {
            if self.sim.is_finished(w.actor) {
                if let Some(p) = w.pair {
                    // only if no newer live worker for the pair exists
                    let newer = self.workers.iter().any(|x| x.pair == Some(p) && x.actor > w.actor && !self.sim.is_finished(x.actor));
                    if !newer {
                        // keep the entry only if it was published by a newer worker: cannot tell → drop when no live worker
                        self.probes.lock().unwrap().remove(&pair_key(p));
                    }
                }
            }
        }
        self.track_cache_membership();
        {
            let now = self.sim.now_ns();
            let free: Vec<bool> = (0..self.n_dst).map(|d| !self.fetch.lock().unwrap().outstanding_for(self.pair(d))).collect();
            for p in self.penalties.iter_mut() {
                for d in 0..free.len() {
                    if p.t_eff[d].is_none() && free[d] {
                        p.t_eff[d] = Some(now);
                    }
                }
            }
        }
        self.stack_collect();
        self.check_unwarranted_penalties()?;
        self.check_handouts()?;
        self.check_requests()?;
        self.check_sizes()?;
        Ok(())
    }

    pub fn live_worker(&self, pair: Pair) -> Option<ActorId> {
        self.workers.iter().rev().find(|w| w.pair == Some(pair) && !self.sim.is_finished(w.actor)).map(|w| w.actor)
    }

    fn claim(&self, clause: &str) -> bool {
        clause.starts_with(self.prop) || clause == "panic" || clause.starts_with("harness")
    }

    pub fn violate_pub(&mut self, clause: &str, detail: String) -> RunResult2 {
        self.violate(clause, detail)
    }

    fn violate(&mut self, clause: &str, detail: String) -> RunResult2 {
        if self.claim(clause) {
            if let Some(p) = crate::classify(clause, &detail, &[]) {
                if self.open.iter().any(|o| o == p) {
                    self.sim.log(format!("known-finding {p}: {clause}"));
                    self.known_hits.push((p.to_string(), detail));
                    return Ok(());
                }
            }
            Err((clause.to_string(), detail))
        } else {
            // a clause of a sibling property: recorded in the trace, judged by that property's own check
            self.sim.log(format!("note (other property) {clause}: {detail}"));
            Ok(())
        }
    }

    fn check_handouts(&mut self) -> RunResult2 {
        let hs: Vec<Handout> = {
            let h = self.handouts.lock().unwrap();
            h[self.seen_handouts..].to_vec()
        };
        self.seen_handouts += hs.len();
        for h in hs {
            let t_secs = (BASE_SECS + h.t_ns / NS) as u32;
            match &h.res {
                HandRes::Path(p) => {
                    let name = self.route_name(p);
                    let exp = p.expiration().unwrap_or(0);
                    self.sim.log(format!("handout c{} {} {}@{}", h.caller, h.kind, name, exp as i64 - t_secs as i64));
                    self.sim.probe("handout-path");
                    if h.pair.0 == h.pair.1 {
                        continue;
                    }
                    if p.src_ia() != h.pair.0 || p.dst_ia() != h.pair.1 {
                        self.violate("C05/wrong-endpoints", format!("asked {}->{} got {}->{}", h.pair.0, h.pair.1, p.src_ia(), p.dst_ia()))?;
                    }
                    if self.policies.needs_metadata && unevaluable(p) {
                        self.violate("C05/no-metadata-path-returned", format!("path {name} without metadata handed out under policy {}", self.policies.desc))?;
                    }
                    if !self.policies.accepts(p) {
                        self.violate("C05/policy-violated", format!("path {name} handed out although policy {} rejects it", self.policies.desc))?;
                    }
                    let known = self.knowledge.by_pair.get(&pair_key(h.pair)).map(|v| v.iter().any(|(f, e, _)| *f == fp_str(p) && *e == exp)).unwrap_or(false);
                    if !known {
                        self.violate("C05/unknown-path", format!("path {name} (expiry {exp}) was never delivered by a successful lookup for {}->{}", h.pair.0, h.pair.1))?;
                    }
                    if t_secs >= exp {
                        // causal tag: has the worker completed any step since the path expired?
                        let pr = self.probes.lock().unwrap().get(&pair_key(h.pair)).cloned();
                        let exp_t = std::time::SystemTime::UNIX_EPOCH + std::time::Duration::from_secs(exp as u64);
                        let call_secs = (BASE_SECS + h.t_call_ns / NS) as u32;
                        let tag = if call_secs < exp {
                            " [caller waited across the expiry; the manager judges expiry by the time of the call]"
                        } else {
                            match pr {
                                Some((pr, _, _)) if pr.now < exp_t => " [no worker step since expiry]",
                                None => " [no worker step since expiry]",
                                _ => "",
                            }
                        };
                        self.violate("C06/expired-handout", format!("path {name} expired {}s before it was handed out ({}){tag}", t_secs - exp, h.kind))?;
                        // the same hand-out seen from C05: the path stems from an earlier lookup and is no longer valid
                        self.violate("C05/handed-out-path-no-longer-valid", format!("path {name} stems from an earlier lookup and expired {}s before it was handed out ({}){tag}", t_secs - exp, h.kind))?;
                    }
                    if let Some(r) = self.route_of_fp(&fp_str(p)) {
                        self.check_fresh_penalty(h.pair, r, h.t_ns)?;
                    }
                }
                HandRes::None | HandRes::Err(_) => {
                    self.sim.log(format!("handout c{} {} {}", h.caller, h.kind, match &h.res { HandRes::None => "none".to_string(), HandRes::Err(e) => format!("err({e})"), _ => unreachable!() }));
                    if h.pair.0 == h.pair.1 {
                        self.violate("C05/local-path-refused", "src == dst must yield the local path".into())?;
                    }
                    // C06 (b'): ... nor while the latest lookup of the pair's live worker delivered a valid path which the
                    // policy accepts (what the manager keeps of a result is its own business, but it may not keep
                    // only paths it then refuses to hand out)
                    if h.t_ns == self.sim.now_ns() && !self.fetch.lock().unwrap().outstanding_for(h.pair) {
                        if let Some(wk) = self.live_worker(h.pair) {
                            let thr = self.cfg.min_expiry_threshold.as_secs() as u32;
                            let latest: Option<(usize, Vec<String>, u64)> = {
                                let st = self.fetch.lock().unwrap();
                                st.reqs.iter().rev().find(|r| r.actor == Some(wk) && r.done_step.is_some()).map(|r| {
                                    let names = match &r.outcome {
                                        Some(Outcome::Ok(v)) => v.iter().filter(|p| self.policies.accepts(p) && p.expiration().unwrap_or(0) > t_secs + thr).map(|p| self.route_name(p)).collect(),
                                        _ => Vec::new(),
                                    };
                                    (r.id, names, r.done_step.unwrap_or(0))
                                })
                            };
                            let pr = self.probes.lock().unwrap().get(&pair_key(h.pair)).cloned();
                            if let (Some((id, names, dstep)), Some((_, pstep, pactor))) = (latest, pr) {
                                // the worker finished processing that result (published its state afterwards) before answering
                                if !names.is_empty() && pactor == Some(wk) && pstep > dstep && pstep < h.step {
                                    self.violate("C06/left-without-path", format!("{} returned no path although lookup #{id}, the latest one, delivered valid paths {names:?} and no lookup is outstanding [valid paths of the latest lookup were not kept]", h.kind))?;
                                }
                            }
                        }
                    }
                    // C06 (b): a sender is not left without a path while the worker holds a valid one
                    if h.t_ns == self.sim.now_ns() && !self.fetch.lock().unwrap().outstanding_for(h.pair) && self.live_worker(h.pair).is_some() {
                        let thr = self.cfg.min_expiry_threshold.as_secs() as u32;
                        let pr = self.probes.lock().unwrap().get(&pair_key(h.pair)).cloned();
                        if let Some((pr, pstep, pactor)) = pr {
                            if pactor != self.live_worker(h.pair) {
                                continue;
                            }
                            let valid: Vec<String> = pr.cached.iter().filter(|(p, _, _)| p.expiration().unwrap_or(0) > t_secs + thr).map(|(p, _, _)| self.route_name(p)).collect();
                            // the worker published this state before the request was answered
                            if !valid.is_empty() && pstep < h.step {
                                let tag = if pr.failed_attempts > 0 { " [last lookup failed: next maintenance is scheduled by the back-off, not by the active path's expiry]" } else { "" };
                                self.violate("C06/left-without-path", format!("{} returned no path although the worker caches valid paths {valid:?} and no lookup is outstanding{tag}", h.kind))?;
                            }
                        }
                    }
                }
            }
            self.sim.probe("oracle-handout");
        }
        Ok(())
    }

    /// C06 (e): spacing of lookups per worker.
    fn check_requests(&mut self) -> RunResult2 {
        let min_delay = self.cfg.min_refetch_delay.as_nanos() as u64;
        let ceiling = ((self.cfg.fetch_failure_backoff.maximum_delay_secs as f64).max(self.cfg.min_refetch_delay.as_secs_f64()) * 1e9) as u64;
        let eps = 2_000_000; // 2 ms: f32 rounding of the back-off
        let now = self.sim.now_ns();
        let mut viol: Vec<(String, String)> = Vec::new();
        {
            let st = self.fetch.lock().unwrap();
            // new requests since last check: compare with the previous request of the same worker
            for r in st.reqs.iter().skip(self.reqs_checked) {
                if let Some(prev) = st.reqs[..r.id].iter().rev().find(|p| p.actor == r.actor && r.actor.is_some()) {
                    let gap = r.start_ns - prev.start_ns;
                    if gap + 1_000 < min_delay {
                        viol.push(("C06/refetch-too-soon".into(), format!("lookup #{} started {} ms after lookup #{} of the same worker; configured minimum {} ms", r.id, gap / 1_000_000, prev.id, min_delay / 1_000_000)));
                    }
                    let failed = match &prev.outcome {
                        Some(Outcome::Err) => true,
                        Some(Outcome::Ok(v)) => !v.iter().any(|p| self.policies.accepts(p)),
                        None => false,
                    };
                    if failed {
                        let bound = (prev.start_ns + ceiling).max(prev.done_ns.unwrap_or(0)) + eps;
                        if r.start_ns > bound {
                            viol.push(("C06/refetch-too-late".into(), format!("lookup #{} started {} ms after the failed lookup #{}; back-off ceiling {} ms", r.id, gap / 1_000_000, prev.id, ceiling / 1_000_000)));
                        }
                    }
                }
            }
            self.reqs_checked = st.reqs.len();
            // overdue: a live worker whose last lookup failed must have re-attempted by now
            for w in &self.workers {
                if self.sim.is_finished(w.actor) {
                    continue;
                }
                if let Some(last) = st.reqs.iter().rev().find(|r| r.actor == Some(w.actor)) {
                    let failed = match &last.outcome {
                        Some(Outcome::Err) => true,
                        Some(Outcome::Ok(v)) => !v.iter().any(|p| self.policies.accepts(p)),
                        None => false,
                    };
                    if failed && last.done_ns.is_some() {
                        let bound = (last.start_ns + ceiling).max(last.done_ns.unwrap_or(0)) + eps;
                        if now > bound + NS {
                            viol.push(("C06/refetch-too-late".into(), format!("worker of lookup #{} is alive, its last lookup failed {} ms ago and it has not re-attempted; ceiling {} ms", last.id, (now - last.start_ns) / 1_000_000, ceiling / 1_000_000)));
                        }
                    }
                }
            }
        }
        for (c, d) in viol {
            self.violate(&c, d)?;
        }
        Ok(())
    }

    /// C06 (c), (d): sizes.
    fn check_sizes(&mut self) -> RunResult2 {
        let max = self.cfg.max_cached_paths_per_pair;
        let over: Vec<(usize, String)> = self.probes.lock().unwrap().values().filter(|(p, _, _)| p.cached.len() > max).map(|(p, _, _)| (p.cached.len(), format!("{}", p.dst))).collect();
        for (n, d) in over {
            self.violate("C06/cache-exceeds-max", format!("{n} paths cached for ->{d}, configured maximum {max}"))?;
        }
        if let Some(m) = &self.mgr {
            let (c, f) = verif_shim::issue_memory_sizes(m);
            let lim = self.cfg.issue_cache_size;
            self.sim.probe("oracle-sizes");
            if c > lim {
                self.violate("C06/issue-cache-exceeds", format!("issue cache holds {c} entries, configured size {lim}"))?;
            }
            if f > lim.max(1) {
                self.violate("C06/issue-fifo-exceeds", format!("issue FIFO holds {f} entries, configured size {lim}"))?;
            }
        }
        Ok(())
    }
}

pub type RunResult2 = Result<(), (String, String)>;

/// Convert an engine-level result into a simcore violation.
pub fn finish(ctx: &mut RunCtx, r: RunResult2) -> RunResult {
    match r {
        Ok(()) => Ok(()),
        Err((clause, detail)) => ctx.violate(&clause, detail),
    }
}

pub fn unused(_: IsdAsn) {}
