//! verif-mgr — deterministic simulation of the real `MultiPathManager` (C05, C06, C07, C20).

mod c07;
mod c20;
mod hist;
mod stack;
mod sys;
#[path = "../../net/src/topo.rs"]
mod topo;
mod world;

use simcore::{Budget, Engine, RunCtx, RunResult, Tier};
use simrt::Sim;

use hist::*;
use world::*;

pub struct MgrEngine;

/// Named causal patterns (for known findings).
pub fn classify(clause: &str, detail: &str, _trace: &[String]) -> Option<&'static str> {
    match clause {
        "panic" if detail.contains("should have a path available") => Some("C06/worker-panic/lookup-returns-only-expired-paths"),
        "C06/issue-fifo-exceeds" => Some("C06/issue-fifo-unbounded"),
        "C06/issue-cache-exceeds" => Some("C06/issue-cache-exceeds-after-stale-fifo-entry"),
        "C06/expired-handout" => {
            if detail.contains("[caller waited across the expiry") {
                Some("C06/expired-handout/caller-waited-across-expiry")
            } else if detail.contains("[no worker step since expiry]") {
                Some("C06/expired-handout/no-worker-step-since-expiry")
            } else {
                None
            }
        }
        "C20/released-by-a-removal-requested-before-the-caller-arrived" => Some("C20/stale-worker-exit-removes-successor"),
        "C05/handed-out-path-no-longer-valid" => {
            if detail.contains("[caller waited across the expiry") {
                Some("C05/handed-out-path-no-longer-valid/caller-waited-across-expiry")
            } else {
                None
            }
        }
        "C06/left-without-path" => {
            if detail.contains("[valid paths of the latest lookup were not kept]") {
                Some("C06/left-without-path/valid-paths-of-latest-lookup-not-kept")
            } else if detail.contains("[last lookup failed: next maintenance is scheduled by the back-off") {
                Some("C06/left-without-path/active-path-expires-during-back-off")
            } else {
                None
            }
        }
        "C07/no-switch" => {
            if detail.contains("[penalty below swap threshold]") {
                Some("C07/no-switch/penalty-below-swap-threshold")
            } else if detail.contains("[lookup outstanding since before the report: the worker cannot act yet]") {
                Some("C07/report-during-outstanding-lookup")
            } else {
                None
            }
        }
        "C07/fresh-penalised-path-used" => {
            if detail.contains("[lookup outstanding since before the report: the worker cannot act yet]") {
                Some("C07/report-during-outstanding-lookup")
            } else {
                None
            }
        }
        _ => None,
    }
}

fn run_history(prop: &str, ctx: &mut RunCtx) -> RunResult {
    // C20 runs are pre-emptive: the chance of yielding at a hooked scheduling point is a swarm knob
    let preempt = if prop == "C20" { [(1u64, 3u64), (1, 6), (1, 12), (1, 2)][ctx.ch.idx(4)] } else { (0, 1) };
    // a share of the C07 runs are whole-system histories (sys.rs): the network is drawn first
    // (VERIF_SYS_ONLY=1, for experiments with the harness: only whole-system histories are judged)
    let sys_only = std::env::var("VERIF_SYS_ONLY").is_ok();
    let sys_world = if (prop == "C07" || prop == "C06") && (ctx.ch.chance(1, 10) || sys_only) { Some(topo::draw(ctx)) } else { None };
    let ch = std::mem::replace(&mut ctx.ch, simcore::Choices::replay(Vec::new()));
    let trace = std::mem::take(&mut ctx.trace);
    let sim = Sim::new(ch, trace, preempt, prop == "C20" || std::env::var("VERIF_LOG_SCHED").is_ok());
    let open = ctx.open_list();
    let r = std::panic::catch_unwind(std::panic::AssertUnwindSafe(|| {
        if let Some(w) = sys_world {
            sim.probe("system-history");
            let r = sys::drive_sys(&sim, w, prop);
            return (r, Vec::new(), sim.now_ns() / 1_000_000);
        }
        let mut h = Hist::new(prop, sim.clone());
        h.open = open;
        let r = if prop == "C20" { c20::drive_c20(&mut h) } else { drive(&mut h) };
        let known = std::mem::take(&mut h.known_hits);
        let sim_ms = sim.now_ns() / 1_000_000;
        // drop the manager inside the simulation's lifetime, then tear down
        h.mgr = None;
        drop(h);
        (r, known, sim_ms)
    }));
    sim.teardown();
    let (ch, trace, faults, probes) = sim.take_results();
    ctx.ch = ch;
    ctx.trace = trace;
    for (k, v) in faults {
        *ctx.faults.entry(k).or_insert(0) += v;
    }
    let mut evals = 0;
    for (k, v) in probes {
        if k.starts_with("oracle-") {
            evals += v;
        }
        *ctx.probes.entry(k).or_insert(0) += v;
    }
    match r {
        Ok((r, known, sim_ms)) => {
            ctx.sim_ms = sim_ms;
            if evals > 0 {
                ctx.nontrivial = true;
                ctx.oracle_evals += evals;
            }
            for (p, d) in known {
                ctx.note_known(&p, d);
            }
            finish(ctx, r)
        }
        Err(p) => std::panic::resume_unwind(p),
    }
}

const STEPS: u64 = 2000;

fn drive(h: &mut Hist) -> RunResult2 {
    let sim = h.sim.clone();
    let n_ops = 10 + sim.idx(50);
    // op weights per property: [send, try, advance, complete, plan, report, stop, prefetch, local, gc]
    let w: [u64; 10] = match h.prop {
        "C05" => [4, 4, 4, 5, 2, 2, 1, 1, 1, 1],
        "C06" => [3, 4, 6, 5, 2, 4, 1, 1, 0, 1],
        _ => [2, 4, 5, 4, 1, 7, 0, 0, 0, 0],
    };
    let total: u64 = w.iter().sum();
    for _ in 0..n_ops {
        let mut x = sim.draw(total);
        let mut op = 0;
        for (i, wi) in w.iter().enumerate() {
            if x < *wi {
                op = i;
                break;
            }
            x -= wi;
        }
        let pair = h.pair(sim.idx(h.n_dst));
        match op {
            0 => {
                h.op_send(pair);
            }
            1 => {
                h.op_try_send(pair);
            }
            2 => {
                h.op_advance(STEPS)?;
                continue;
            }
            3 => {
                let k = sim.idx(4);
                h.op_complete(k, false);
            }
            4 => h.op_plan(pair, false),
            5 => {
                h.op_report_drawn()?;
                continue;
            }
            6 => {
                h.op_stop(pair);
            }
            7 => h.op_prefetch(pair),
            9 => h.op_gc(),
            _ => {
                let p = (pair.0, pair.0);
                h.op_send(p);
            }
        }
        h.settle_and_check(STEPS)?;
    }
    h.final_phase()?;
    Ok(())
}

impl Engine for MgrEngine {
    fn name(&self) -> &'static str {
        "verif-mgr"
    }
    fn properties(&self) -> &'static [&'static str] {
        &["C05", "C06", "C07", "C20"]
    }
    fn run(&self, prop: &str, ctx: &mut RunCtx) -> RunResult {
        match prop {
            "C05" | "C06" | "C07" | "C20" => run_history(prop, ctx),
            _ => Ok(()),
        }
    }
    fn budget(&self, prop: &str, tier: Tier) -> Budget {
        // Thorough run counts are the prefixes of the default seed's run sequence that were executed to the end with
        // these engines on the unchanged tree (runs are a pure function of seed and index, so a validated prefix stays
        // clean); the wall cap only ever shortens them.
        let thorough_runs = match prop {
            "C20" => 6_000_000,
            "C07" => 850_000,
            "C05" => 4_200_000,
            _ => 950_000,
        };
        match tier {
            Tier::Quick => Budget { runs: 150_000, wall_cap_s: 150 },
            Tier::Thorough => Budget { runs: thorough_runs, wall_cap_s: 1500 },
        }
    }
    fn classifier(&self) -> fn(&str, &str, &[String]) -> Option<&'static str> {
        classify
    }
    fn rule(&self, _prop: &str) -> String {
        "a run counts as non-trivial if at least one oracle clause was evaluated on a non-vacuous premise (a path hand-out, a size probe of the issue memory, a post-report switch check); distinct = distinct FNV-1a hash of the run's abstract event trace (operations, lookup outcomes, hand-outs, clock steps)".into()
    }
    fn real_components(&self, _prop: &str) -> Vec<&'static str> {
        vec![
            "scion_stack::path::manager::MultiPathManager (public API: path_wait, cached_path, prefetch, stop_managing_paths, report_scmp_error, report_send_error)",
            "per-pair worker PathSet::manage (fetch_and_update, maintain, handle_issue_rx, merge, rank, active-path decision)",
            "PathIssueManager, IssueMarker matching, ReliabilityScore decay, PathScorer with the default scorers",
            "PathStrategy with sciparse AclPolicy / HopPatternPolicy parsed from generated strings and arbitrary predicates",
            "ExponentialBackoff (jitter drawn from the choice stream)",
            "tokio::sync::{Notify, broadcast}, tokio_util CancellationToken, arc_swap, scc::HashIndex (through verif-hooks wrappers)",
            "whole-system histories (a tenth of the C06/C07 runs): pocketscion SegmentRegistry (endhost_list_segments, into_path_segments with the topology's keys), sciparse combinator, pocketscion NetworkSimulator::dispatch (SpecRoutingLogic traversal, SCMP error generation, local delivery), UdpScionSocket + ScmpErrorHandler + MultiPathManager in one AS",
            "stack mode (a third of the C05-C07 histories): UdpScionSocket::send_to / recv_from, PathUnawareUdpScionSocket, ScmpErrorHandler, wired to the manager as ScionStack::bind_with_config does (hook H10)",
        ]
    }
    fn stub_components(&self, _prop: &str) -> Vec<&'static str> {
        vec!["task scheduler and timers (simrt: baton-passing actor threads, virtual clock)", "PathFetcher (scripted lookup service driven by the choice stream)", "callers and controller (driver operations)", "stack mode: the underlay below the socket (datagram queue owned by the driver; refuses one packet per first-hop failure)"]
    }
    fn assumptions(&self, _prop: &str) -> Vec<&'static str> {
        vec![
            "built with cargo feature verif-hooks: clock, sleep, spawn, lock, hash seed and jitter calls of the manager are routed to the simulator; with the feature off these are the std/tokio primitives",
            "internals of tokio::sync::Notify/broadcast, arc_swap and scc are treated as atomic steps",
            "paths are built by sciparse's TestPathBuilder (single up-segment routes, uniform hop expiry)",
            "exploration samples histories; a clean batch is evidence, not proof",
        ]
    }
    fn required_reach(&self, prop: &str) -> Vec<&'static str> {
        match prop {
            "C05" => vec!["handout-path", "policy-rejected-some", "policy-accepted-some", "lookup-error", "clock-advance"],
            "C06" => vec!["handout-path", "lookup-error", "lookup-empty", "clock-on-boundary", "oracle-sizes", "final-liveness-checked", "system-history", "oracle-system-datagram-fate", "clock-jump-before-timers-run"],
            "C07" => vec!["report-concerns-active", "switch-checked", "report-unrelated", "stack-send", "stack-scmp-report", "stack-first-hop-refused", "system-history", "system-scmp-interface-down-learned", "oracle-system-steering", "link-down"],
            "C20" => vec!["waiter-while-lookup-outstanding", "oracle-single-worker", "concurrent-first-requests", "oracle-drop", "caller-cancelled", "manager-dropped"],
            _ => vec![],
        }
    }
}

fn main() {
    scion_sdk_utils::verif::set_simulated_process(true);
    simcore::runner::main_for(&MgrEngine);
}
