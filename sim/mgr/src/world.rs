//! The simulated world of the path manager: path universe, scripted lookup service, policies, configurations.

use std::collections::{BTreeMap, VecDeque};
use std::future::Future;
use std::net::{IpAddr, Ipv4Addr};
use std::pin::Pin;
use std::sync::{Arc, Mutex};
use std::task::{Context, Poll, Waker};
use std::time::Duration;

use scion_sdk_utils::backoff::BackoffConfig;
use scion_stack::path::fetcher::traits::{PathFetchError, PathFetcher};
use scion_stack::path::manager::verif_shim::VerifManagerConfig;
use scion_stack::path::policy::PathPolicy;
use sciparse::address::ip_addr::ScionIpAddr;
use sciparse::identifier::{asn::Asn, isd::Isd, isd_asn::IsdAsn};
use sciparse::path::ScionPath;
use sciparse::path::policy::{acl::AclPolicy, hop_pattern::HopPatternPolicy};
use sciparse::util::test_builder::TestPathBuilder;
use simrt::{ActorId, Sim};

pub type Pair = (IsdAsn, IsdAsn);

pub fn ia(isd: u16, asn: u64) -> IsdAsn {
    IsdAsn::new(Isd(isd), Asn(asn))
}

pub const SRC_ASN: u64 = 0x110;

pub fn src_ia() -> IsdAsn {
    ia(1, SRC_ASN)
}

pub fn dst_ia(k: usize) -> IsdAsn {
    ia(1, 0x200 + k as u64)
}

/// ISD of an AS of the universe: source and destinations live in ISD 1; transit ASes are spread over three ISDs (a fixed
/// function of the AS number, so that routes crossing a third ISD occur in most universes).
pub fn isd_of(asn: u64) -> u16 {
    match asn {
        0x301 => 3,
        0x303 => 2,
        _ => 1,
    }
}

/// ISD-AS of an AS of the universe.
pub fn ia_of(asn: u64) -> IsdAsn {
    ia(isd_of(asn), asn)
}

/// One hop of a route: (asn, ingress, egress).
#[derive(Clone, Debug, PartialEq, Eq)]
pub struct Hop {
    pub asn: u64,
    pub ing: u16,
    pub eg: u16,
}

/// A route = a fixed interface sequence between src and one destination.
#[derive(Clone, Debug)]
pub struct Route {
    pub dst: usize,
    pub hops: Vec<Hop>,
}

impl Route {
    pub fn describe(&self) -> String {
        let mut s = String::new();
        for h in &self.hops {
            s.push_str(&format!("{}-{:x}[{}>{}] ", isd_of(h.asn), h.asn, h.ing, h.eg));
        }
        s.trim_end().to_string()
    }
}

/// Draw a universe of routes with controlled sharing of first hops and transit ASes.
pub fn draw_routes(sim: &Sim, n_dst: usize, max_routes: usize) -> Vec<Route> {
    let mut routes: Vec<Route> = Vec::new();
    let n = 2 + sim.idx(max_routes.saturating_sub(1).max(1));
    let first_ifs = 1 + sim.idx(3) as u16; // 1..3 distinct first-hop egress interfaces
    let transit_pool = 2 + sim.idx(3) as u64; // 2..4 transit ASes
    for _ in 0..n {
        let dst = sim.idx(n_dst);
        let n_transit = sim.idx(4); // 0..3 transit hops
        let mut hops = Vec::new();
        hops.push(Hop { asn: SRC_ASN, ing: 0, eg: 1 + sim.idx(first_ifs as usize) as u16 });
        let mut used = Vec::new();
        for _ in 0..n_transit {
            let mut a = 0x300 + sim.draw(transit_pool);
            // no AS twice on a route
            let mut guard = 0;
            while used.contains(&a) && guard < 8 {
                a = 0x300 + (a - 0x300 + 1) % transit_pool;
                guard += 1;
            }
            if used.contains(&a) {
                break;
            }
            used.push(a);
            let ing = 1 + sim.idx(3) as u16;
            let mut eg = 1 + sim.idx(3) as u16;
            if eg == ing {
                eg = ing % 3 + 1;
            }
            hops.push(Hop { asn: a, ing, eg });
        }
        hops.push(Hop { asn: 0x200 + dst as u64, ing: 1 + sim.idx(3) as u16, eg: 0 });
        let r = Route { dst, hops };
        // the SDK identifies a path by its interface sequence (the data-plane fingerprint ignores AS numbers):
        // two routes of the universe never share one
        let ifs = |x: &Route| -> Vec<(u16, u16)> { x.hops.iter().map(|h| (h.ing, h.eg)).collect() };
        if !routes.iter().any(|x| x.dst == r.dst && ifs(x) == ifs(&r)) {
            routes.push(r);
        }
    }
    routes
}

fn scion_addr(ia: IsdAsn, last: u8) -> sciparse::address::addr::ScionAddr {
    ScionIpAddr::new(ia, IpAddr::V4(Ipv4Addr::new(10, 0, 0, last))).into()
}

/// Build a concrete path for `route` expiring exactly at `expiry` (unix seconds).
pub fn build_path(route: &Route, expiry: u32, with_metadata: bool) -> ScionPath {
    // exp units 0 => lifetime of one unit (337.5 s, the SDK floors/ceils internally); find ts so that the
    // SDK's own expiration() equals `expiry`.
    let mk = |ts: u32| -> ScionPath {
        let mut b = TestPathBuilder::new(scion_addr(src_ia(), 1), scion_addr(dst_ia(route.dst), 2))
            .using_info_timestamp(ts)
            .with_hop_expiry(0)
            .up();
        for h in &route.hops {
            b = b.with_isd(isd_of(h.asn)).with_asn(h.asn as u32).add_hop(h.ing, h.eg);
        }
        b.build(ts).path()
    };
    let guess = expiry.saturating_sub(337);
    let mut p = mk(guess);
    let got = p.expiration().unwrap_or(0);
    if got != expiry {
        let ts = (guess as i64 + (expiry as i64 - got as i64)).max(0) as u32;
        p = mk(ts);
    }
    if !with_metadata {
        p = ScionPath::new(p.src_ia(), p.dst_ia(), p.dp_path().clone(), None, None);
    }
    p
}

// ------------------------------------------------------------------------------------------------
// lookup service

#[derive(Clone, Debug)]
pub enum Outcome {
    Ok(Vec<ScionPath>),
    Err,
}

pub struct Req {
    pub id: usize,
    pub pair: Pair,
    pub actor: Option<ActorId>,
    pub start_ns: u64,
    pub outcome: Option<Outcome>,
    pub waker: Option<Waker>,
    pub done_ns: Option<u64>,
    /// scheduler step at which the worker consumed the outcome
    pub done_step: Option<u64>,
    /// dropped before completion (worker cancelled / exited)
    pub dropped: bool,
}

#[derive(Default)]
pub struct FetchState {
    pub reqs: Vec<Req>,
    /// outcomes programmed in advance: consumed by the next request (immediate completion)
    pub planned: VecDeque<(Pair, Outcome)>,
}

impl FetchState {
    pub fn outstanding(&self) -> Vec<usize> {
        self.reqs.iter().filter(|r| r.outcome.is_none() && !r.dropped).map(|r| r.id).collect()
    }
    pub fn outstanding_for(&self, pair: Pair) -> bool {
        self.reqs.iter().any(|r| r.pair == pair && r.outcome.is_none() && !r.dropped)
    }
}

#[derive(Clone)]
pub struct SimFetcher {
    pub st: Arc<Mutex<FetchState>>,
    pub sim: Sim,
}

pub struct FetchWait {
    st: Arc<Mutex<FetchState>>,
    id: usize,
    sim: Sim,
}

impl Future for FetchWait {
    type Output = Result<Vec<ScionPath>, PathFetchError>;
    fn poll(self: Pin<&mut Self>, cx: &mut Context<'_>) -> Poll<Self::Output> {
        let mut st = self.st.lock().unwrap();
        let now = self.sim.now_ns();
        let r = &mut st.reqs[self.id];
        match r.outcome.clone() {
            Some(o) => {
                if r.done_ns.is_none() {
                    r.done_ns = Some(now);
                    r.done_step = Some(self.sim.with(|s| s.steps));
                }
                match o {
                    Outcome::Ok(v) => Poll::Ready(Ok(v)),
                    Outcome::Err => Poll::Ready(Err(PathFetchError::InternalError("simulated lookup failure".into()))),
                }
            }
            None => {
                r.waker = Some(cx.waker().clone());
                Poll::Pending
            }
        }
    }
}

impl Drop for FetchWait {
    fn drop(&mut self) {
        if let Ok(mut st) = self.st.lock() {
            let r = &mut st.reqs[self.id];
            if r.done_ns.is_none() {
                r.dropped = true;
            }
        }
    }
}

impl PathFetcher for SimFetcher {
    fn fetch_paths(&self, src: IsdAsn, dst: IsdAsn) -> impl Future<Output = Result<Vec<ScionPath>, PathFetchError>> + Send + '_ {
        let id = {
            let mut st = self.st.lock().unwrap();
            let id = st.reqs.len();
            let planned = match st.planned.iter().position(|(p, _)| *p == (src, dst)) {
                Some(k) => st.planned.remove(k).map(|x| x.1),
                None => None,
            };
            let now = self.sim.now_ns();
            st.reqs.push(Req { id, pair: (src, dst), actor: simrt::current_actor(), start_ns: now, outcome: planned, waker: None, done_ns: None, done_step: None, dropped: false });
            id
        };
        self.sim.log(format!("lookup.start #{id} {src}->{dst}"));
        FetchWait { st: self.st.clone(), id, sim: self.sim.clone() }
    }
}

// ------------------------------------------------------------------------------------------------
// policies

#[derive(Clone)]
pub struct HashPolicy {
    pub salt: u64,
    /// accept iff hash % den < num
    pub num: u64,
    pub den: u64,
}

impl PathPolicy for HashPolicy {
    fn predicate(&self, path: &ScionPath) -> bool {
        let fp = format!("{:#}", path.fingerprint());
        (simcore::fnv1a(fp.as_bytes()) ^ self.salt).wrapping_mul(0x9E3779B97F4A7C15) >> 32 & 0xffff < self.num * 0x10000 / self.den
    }
}

pub struct PolicySet {
    pub desc: String,
    pub policies: Vec<Arc<dyn PathPolicy>>,
    /// true iff at least one sciparse (metadata-dependent) policy is attached
    pub needs_metadata: bool,
}

impl PolicySet {
    pub fn accepts(&self, p: &ScionPath) -> bool {
        self.policies.iter().all(|x| x.predicate(p))
    }
}

pub fn draw_policies(sim: &Sim, routes: &[Route]) -> PolicySet {
    let mut ps = PolicySet { desc: String::new(), policies: Vec::new(), needs_metadata: false };
    let kind = sim.idx(6);
    let pick_hop = |sim: &Sim| -> (u64, u16, u16) {
        let r = &routes[sim.idx(routes.len())];
        let h = &r.hops[sim.idx(r.hops.len())];
        (h.asn, h.ing, h.eg)
    };
    match kind {
        0 => ps.desc = "none".into(),
        1 => {
            let salt = sim.draw(1 << 16);
            let num = 1 + sim.draw(3);
            ps.desc = format!("hash(salt={salt},{num}/4)");
            ps.policies.push(Arc::new(HashPolicy { salt, num, den: 4 }));
        }
        2 | 3 => {
            // ACL: deny (or allow only) paths through a hop
            let (a, i, e) = pick_hop(sim);
            let d = isd_of(a);
            let s = match sim.idx(4) {
                0 => format!("- {d}-{a} +"),
                1 => format!("- {d}-{a}#{} +", if e != 0 { e } else { i }),
                2 => format!("+ {d}-{a} -"),
                _ => format!("- {d}-{a}#{i},{e} +"),
            };
            match AclPolicy::parse(&s) {
                Ok(p) => {
                    ps.desc = format!("acl({s})");
                    ps.policies.push(Arc::new(p));
                    ps.needs_metadata = true;
                }
                Err(_) => ps.desc = format!("acl-unparsable({s})"),
            }
        }
        4 => {
            let (a, _, _) = pick_hop(sim);
            let d = isd_of(a);
            let s = match sim.idx(3) {
                0 => format!("0* {d}-{a} 0*"),
                1 => "0 0 0?".to_string(),
                _ => format!("0+ ({d}-{a} | {}-{}) 0*", isd_of(a + 1), a + 1),
            };
            match HopPatternPolicy::parse(&s) {
                Ok(p) => {
                    ps.desc = format!("hops({s})");
                    ps.policies.push(Arc::new(p));
                    ps.needs_metadata = true;
                }
                Err(_) => ps.desc = format!("hops-unparsable({s})"),
            }
        }
        _ => {
            // combination: ACL and hash
            let (a, _, _) = pick_hop(sim);
            let d = isd_of(a);
            let s = format!("- {d}-{a} +");
            let salt = sim.draw(1 << 16);
            if let Ok(p) = AclPolicy::parse(&s) {
                ps.policies.push(Arc::new(p));
                ps.needs_metadata = true;
            }
            ps.policies.push(Arc::new(HashPolicy { salt, num: 3, den: 4 }));
            ps.desc = format!("acl({s})+hash(salt={salt},3/4)");
        }
    }
    ps
}

// ------------------------------------------------------------------------------------------------
// configuration

pub fn secs(s: u64) -> Duration {
    Duration::from_secs(s)
}

pub fn draw_config(sim: &Sim, shipped_bias: bool) -> VerifManagerConfig {
    let mut c = VerifManagerConfig::shipped();
    if shipped_bias && sim.chance(1, 3) {
        return c;
    }
    if sim.idx(4) == 0 {
        return c;
    }
    c.max_cached_paths_per_pair = [50usize, 1, 2, 3, 5][sim.idx(5)];
    c.refetch_interval = secs([1800u64, 10, 100, 600][sim.idx(4)]);
    c.min_expiry_threshold = secs([300u64, 5, 60][sim.idx(3)]);
    let lim = c.refetch_interval.min(c.min_expiry_threshold).as_secs();
    let cands: Vec<u64> = [60u64, 0, 1, 5].iter().copied().filter(|x| *x <= lim).collect();
    c.min_refetch_delay = secs(cands[sim.idx(cands.len())]);
    c.max_idle_period = secs([120u64, 30, 600, 86400][sim.idx(4)]);
    c.fetch_failure_backoff = match sim.idx(4) {
        0 => BackoffConfig { minimum_delay_secs: 60.0, maximum_delay_secs: 300.0, factor: 1.5, jitter_secs: 5.0 },
        1 => BackoffConfig { minimum_delay_secs: 1.0, maximum_delay_secs: 10.0, factor: 2.0, jitter_secs: 0.0 },
        2 => BackoffConfig { minimum_delay_secs: 1.0, maximum_delay_secs: 30.0, factor: 2.0, jitter_secs: 0.5 },
        _ => BackoffConfig { minimum_delay_secs: 5.0, maximum_delay_secs: 5.0, factor: 1.0, jitter_secs: 1.0 },
    };
    c.issue_cache_size = [100usize, 1, 2, 4][sim.idx(4)];
    c.issue_broadcast_size = [10usize, 1, 2, 64][sim.idx(4)];
    c.issue_deduplication_window = secs([10u64, 0, 1][sim.idx(3)]);
    c.path_swap_score_threshold = [0.5f32, 0.1, 0.05][sim.idx(3)];
    c
}

pub fn describe_config(c: &VerifManagerConfig) -> String {
    format!(
        "max_cached={} refetch={}s min_delay={}s thr={}s idle={}s backoff=({},{},{},{}) issue_cache={} bcast={} dedup={}s swap={}",
        c.max_cached_paths_per_pair,
        c.refetch_interval.as_secs(),
        c.min_refetch_delay.as_secs(),
        c.min_expiry_threshold.as_secs(),
        c.max_idle_period.as_secs(),
        c.fetch_failure_backoff.minimum_delay_secs,
        c.fetch_failure_backoff.maximum_delay_secs,
        c.fetch_failure_backoff.factor,
        c.fetch_failure_backoff.jitter_secs,
        c.issue_cache_size,
        c.issue_broadcast_size,
        c.issue_deduplication_window.as_secs(),
        c.path_swap_score_threshold
    )
}

/// Per-pair knowledge: every (fingerprint, expiry) delivered by a successful lookup, with the policy verdict.
#[derive(Default)]
pub struct Knowledge {
    pub by_pair: BTreeMap<(u64, u64), Vec<(String, u32, bool)>>,
}

pub fn pair_key(p: Pair) -> (u64, u64) {
    (p.0.to_u64(), p.1.to_u64())
}
