//! "Stack mode" of the life histories: senders and failure reports go through the SDK's real path-aware socket
//! (`UdpScionSocket::send_to`, the receive loop with the stack's `ScmpErrorHandler`) over a simulated underlay (hooks
//! H8/H10) instead of calling the manager directly.  A hand-out is then the path found in the packet the socket
//! actually emitted, stamped with the instant of emission; an SCMP report is an SCMP packet arriving at the socket; a
//! first-hop failure is the underlay refusing a packet for that interface.  The oracles are the same.

use std::collections::VecDeque;
use std::future::Future;
use std::io;
use std::net::{IpAddr, Ipv4Addr};
use std::pin::Pin;
use std::sync::{Arc, Mutex};
use std::task::{Context, Poll, Waker};
use std::time::Duration;

use scion_stack::path::manager::traits::PathWaitError;
use scion_stack::path::manager::MultiPathManager;
use scion_stack::stack::verif_socket::{udp_socket, VerifUnderlay};
use scion_stack::stack::{ScionSocketSendError, UdpScionSocket};
use sciparse::address::ip_addr::ScionIpAddr;
use sciparse::address::ip_socket_addr::ScionSocketIpAddr;
use sciparse::core::encode::WireEncode;
use sciparse::core::model::Model;
use sciparse::core::view::View;
use sciparse::dataplane_path::view::ScionDpPathViewExt;
use sciparse::identifier::isd_asn::IsdAsn;
use sciparse::packet::model::ScionScmpPacket;
use sciparse::packet::view::ScionRawPacketView;
use sciparse::path::ScionPath;
use sciparse::payload::scmp::model::{ScmpErrorMessage, ScmpExternalInterfaceDown, ScmpInternalConnectivityDown, ScmpMessage};
use simrt::{ActorId, Sim};

use crate::hist::{HandRes, Handout, Hist, Report};
use crate::world::*;

pub type Sock = UdpScionSocket<MultiPathManager<SimFetcher>>;

pub struct Sent {
    pub t_ns: u64,
    pub step: u64,
    pub bytes: Vec<u8>,
}

pub struct UlState {
    inbox: VecDeque<Vec<u8>>,
    rx_waker: Option<Waker>,
    pub sent: Vec<Sent>,
    /// one-shot: the next packet leaving through this first-hop interface is refused (host unreachable)
    pub fail_first_hop: Option<u16>,
    pub failed: usize,
}

pub struct SimUnderlay {
    pub st: Mutex<UlState>,
    sim: Sim,
}

struct Readable<'a>(&'a SimUnderlay);

impl Future for Readable<'_> {
    type Output = ();
    fn poll(self: Pin<&mut Self>, cx: &mut Context<'_>) -> Poll<()> {
        let mut st = self.0.st.lock().unwrap();
        if !st.inbox.is_empty() {
            return Poll::Ready(());
        }
        st.rx_waker = Some(cx.waker().clone());
        Poll::Pending
    }
}

impl VerifUnderlay for SimUnderlay {
    fn try_send(&self, packet: &[u8]) -> Result<(), io::ErrorKind> {
        let first = ScionRawPacketView::try_from_slice(packet).ok().and_then(|(v, _)| v.header().path().first_egress_interface());
        let (t_ns, step) = (self.sim.now_ns(), self.sim.with(|s| s.steps));
        let mut st = self.st.lock().unwrap();
        if st.fail_first_hop.is_some() && st.fail_first_hop == first {
            st.fail_first_hop = None;
            st.failed += 1;
            return Err(io::ErrorKind::HostUnreachable);
        }
        st.sent.push(Sent { t_ns, step, bytes: packet.to_vec() });
        Ok(())
    }
    fn try_recv(&self, buf: &mut [u8]) -> Result<usize, io::ErrorKind> {
        let mut st = self.st.lock().unwrap();
        match st.inbox.pop_front() {
            Some(p) => {
                buf[..p.len()].copy_from_slice(&p);
                Ok(p.len())
            }
            None => Err(io::ErrorKind::WouldBlock),
        }
    }
    fn readable(&self) -> Pin<Box<dyn Future<Output = ()> + Send + '_>> {
        Box::pin(Readable(self))
    }
    fn writeable(&self) -> Pin<Box<dyn Future<Output = ()> + Send + '_>> {
        Box::pin(std::future::ready(()))
    }
}

/// What a sender actor saw: the result of `send_to` and its payload marker (the emitted packet is looked up by it).
pub struct RawOut {
    pub caller: usize,
    pub pair: Pair,
    pub t_call_ns: u64,
    pub t_ns: u64,
    pub step: u64,
    pub res: Result<(), String>,
}

pub struct StackSide {
    pub sock: Arc<Sock>,
    pub ul: Arc<SimUnderlay>,
    pub raw: Arc<Mutex<Vec<RawOut>>>,
    pub rx_actor: ActorId,
    pub datagrams_received: Arc<Mutex<usize>>,
}

fn local_addr() -> ScionSocketIpAddr {
    ScionSocketIpAddr::new(src_ia(), IpAddr::V4(Ipv4Addr::new(10, 0, 0, 2)), 4000)
}

fn remote_addr(dst: IsdAsn) -> ScionSocketIpAddr {
    ScionSocketIpAddr::new(dst, IpAddr::V4(Ipv4Addr::new(10, 0, 1, 1)), 5000)
}

fn marker(caller: usize) -> [u8; 8] {
    (0xC0DE_0000_0000_0000u64 | caller as u64).to_be_bytes()
}

impl StackSide {
    pub fn new(sim: &Sim, mgr: &MultiPathManager<SimFetcher>) -> Self {
        let ul = Arc::new(SimUnderlay { st: Mutex::new(UlState { inbox: VecDeque::new(), rx_waker: None, sent: Vec::new(), fail_first_hop: None, failed: 0 }), sim: sim.clone() });
        let sock = Arc::new(udp_socket(ul.clone(), local_addr(), Arc::new(mgr.clone()), Duration::from_secs(5)));
        let datagrams_received = Arc::new(Mutex::new(0usize));
        let rx_actor = {
            let (sock, n) = (sock.clone(), datagrams_received.clone());
            sim.spawn("receiver", async move {
                let mut buf = vec![0u8; 2048];
                while sock.recv_from(&mut buf).await.is_ok() {
                    *n.lock().unwrap() += 1;
                }
            })
        };
        StackSide { sock, ul, raw: Arc::new(Mutex::new(Vec::new())), rx_actor, datagrams_received }
    }

    pub fn inject(&self, bytes: Vec<u8>) {
        let w = {
            let mut st = self.ul.st.lock().unwrap();
            st.inbox.push_back(bytes);
            st.rx_waker.take()
        };
        if let Some(w) = w {
            w.wake();
        }
    }
}

impl<'a> Hist<'a> {
    /// `op_send` through the socket.
    pub fn stack_send(&mut self, pair: Pair) -> ActorId {
        let s = self.stack.as_ref().expect("stack mode");
        let (sock, raw, sim) = (s.sock.clone(), s.raw.clone(), self.sim.clone());
        let caller = self.callers;
        self.callers += 1;
        let t_call_ns = self.sim.now_ns();
        self.sim.log(format!("socket send c{caller} ->{}", pair.1));
        self.sim.probe("stack-send");
        self.sim.spawn("caller", async move {
            let r = sock.send_to(&marker(caller), remote_addr(pair.1)).await;
            let res = match r {
                Ok(()) => Ok(()),
                Err(ScionSocketSendError::PathLookupError(PathWaitError::NoPathFound)) => Err("no-path".to_string()),
                Err(e) => Err(format!("{e}").chars().take(60).collect()),
            };
            raw.lock().unwrap().push(RawOut { caller, pair, t_call_ns, t_ns: sim.now_ns(), step: sim.with(|s| s.steps), res });
        })
    }

    /// A failure report reaching the stack the way it does in the field.
    pub fn stack_report(&mut self, rep: &Report) {
        let s = self.stack.as_ref().expect("stack mode");
        let some_path = build_path(&self.routes[0], (simrt::BASE_SECS + 1000) as u32, true);
        let me: sciparse::address::addr::ScionAddr = ScionIpAddr::new(src_ia(), IpAddr::V4(Ipv4Addr::new(10, 0, 0, 2))).into();
        let router = |asn: u64| -> sciparse::address::addr::ScionAddr { ScionIpAddr::new(ia_of(asn), IpAddr::V4(Ipv4Addr::new(10, 9, 9, 9))).into() };
        let scmp = |from: u64, e: ScmpErrorMessage| -> Vec<u8> {
            let m: ScmpMessage = e.into();
            ScionScmpPacket::new(router(from), me.clone(), some_path.dp_path().to_model(), m).try_encode_to_vec().expect("encodable")
        };
        match rep {
            Report::ExtIfDown { asn, ifid, tag } => {
                self.sim.probe("stack-scmp-report");
                let m = ScmpExternalInterfaceDown::new(ia_of(*asn), *ifid, vec![*tag; 8 + *tag as usize]);
                s.inject(scmp(*asn, ScmpErrorMessage::ExternalInterfaceDown(m)));
            }
            Report::IntConnDown { asn, ing, eg, tag } => {
                self.sim.probe("stack-scmp-report");
                let m = ScmpInternalConnectivityDown::new(ia_of(*asn), *ing, *eg, vec![*tag; 8 + *tag as usize]);
                s.inject(scmp(*asn, ScmpErrorMessage::InternalConnectivityDown(m)));
            }
            Report::FirstHopForeign { .. } => unreachable!("foreign reports do not go through this socket"),
            Report::FirstHop { ifid } => {
                // the underlay refuses the next packet leaving through `ifid`; a send towards a pair whose active path
                // starts there (if any) meets the refusal
                s.ul.st.lock().unwrap().fail_first_hop = Some(*ifid);
                let mut target = self.pair(0);
                for d in 0..self.n_dst {
                    if let Some((Some(a), _)) = self.view(self.pair(d)) {
                        if self.routes[a].hops[0].eg == *ifid {
                            target = self.pair(d);
                        }
                    }
                }
                let sock = s.sock.clone();
                self.sim.spawn("op", async move {
                    let _ = sock.send_to(b"first-hop-probe", remote_addr(target.1)).await;
                });
            }
        }
    }

    /// Turn what the sender actors saw into hand-outs: the path is the one in the packet the socket emitted.
    pub fn stack_collect(&mut self) {
        let Some(s) = self.stack.as_ref() else { return };
        let raws: Vec<RawOut> = std::mem::take(&mut *s.raw.lock().unwrap());
        for r in raws {
            let (res, t_ns, step) = match &r.res {
                Err(e) => (HandRes::Err(e.clone()), r.t_ns, r.step),
                Ok(()) => {
                    let st = s.ul.st.lock().unwrap();
                    let m = marker(r.caller);
                    match st.sent.iter().rev().find(|p| p.bytes.ends_with(&m)) {
                        None => (HandRes::Err("send_to returned Ok but no packet was emitted".into()), r.t_ns, r.step),
                        Some(p) => {
                            let (v, _) = ScionRawPacketView::try_from_slice(&p.bytes).expect("socket emits decodable packets");
                            let on_wire = v.header().path().to_owned_view();
                            // the full path (with metadata) is the delivered one whose data-plane path is on the wire
                            let mut found: Option<ScionPath> = None;
                            for q in self.fetch.lock().unwrap().reqs.iter() {
                                if let Some(Outcome::Ok(paths)) = &q.outcome {
                                    for cand in paths {
                                        if cand.dp_path().as_slice() == on_wire.as_slice() && cand.src_ia() == v.header().src_ia() && cand.dst_ia() == v.header().dst_ia() {
                                            // (the same route may have been delivered with and without metadata: which copy the
                                            // manager kept cannot be seen on the wire; the benign reading is taken)
                                            if found.as_ref().map(|f: &ScionPath| crate::hist::unevaluable(f)).unwrap_or(true) {
                                                found = Some(cand.clone());
                                            }
                                        }
                                    }
                                }
                            }
                            let path = found.unwrap_or_else(|| ScionPath::new(v.header().src_ia(), v.header().dst_ia(), on_wire, None, None));
                            (HandRes::Path(path), p.t_ns, p.step)
                        }
                    }
                }
            };
            self.handouts.lock().unwrap().push(Handout { caller: r.caller, kind: "send", pair: r.pair, t_ns, t_call_ns: r.t_call_ns, step, res });
        }
    }
}
