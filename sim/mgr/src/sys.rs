//! Whole-system histories (a share of the C07 runs): one process holds a drawn SCION network – pocketscion's control
//! plane (segment registry, real per-AS keys) and its real border-router logic – and, in one of its ASes, a host running
//! the SDK's endhost stack: the real path manager with its worker, fed by lookups that list segments from the control
//! plane and combine them with the SDK's combinator, and the real path-aware UDP socket over a simulated underlay whose
//! far side is that network.  Datagrams the application sends travel AS by AS through the real routers; links are taken
//! down and up under them; the SCMP errors the routers build travel back over the reversed path, are picked up by the
//! socket's receive loop and reach the manager through the stack's SCMP error handler.
//!
//! Oracle (C07, end to end, outcome only): once the stack has been told – by an SCMP "external interface down" that the
//! network itself produced for one of its packets – that interface (X, i) is broken, and the manager caches another
//! valid path that does not leave X through i, the very next datagram to that destination must not come back with the
//! same error.

use std::collections::VecDeque;
use std::future::Future;
use std::io;
use std::net::{IpAddr, Ipv4Addr};
use std::pin::Pin;
use std::sync::{Arc, Mutex};
use std::task::{Context, Poll, Waker};
use std::time::Duration;

use pocketscion::network::local::external_as_registry::ExternalAsRegistry;
use pocketscion::network::local::receiver_registry::NetworkReceiverRegistry;
use pocketscion::network::local::receivers::Receiver;
use pocketscion::network::scion::routing::ScionNetworkTime;
use pocketscion::network::scion::segment::registry::SegmentRegistry;
use pocketscion::network::simulator::NetworkSimulator;
use scion_stack::path::fetcher::traits::{PathFetchError, PathFetcher};
use scion_stack::path::manager::verif_shim::{self, PathSetProbe};
use scion_stack::path::manager::MultiPathManager;
use scion_stack::path::PathStrategy;
use scion_stack::stack::verif_socket::{udp_socket, VerifUnderlay};
use scion_stack::stack::UdpScionSocket;
use sciparse::address::ip_socket_addr::ScionSocketIpAddr;
use sciparse::core::view::View;
use sciparse::dataplane_path::view::ScionDpPathViewExt;
use sciparse::identifier::isd_asn::IsdAsn;
use sciparse::packet::view::ScionRawPacketView;
use sciparse::path::combinator::combine;
use sciparse::path::ScionPath;
use simrt::{ActorId, Sim, BASE_SECS};

use crate::hist::RunResult2;
use crate::topo::World;
use crate::world::draw_config;

const NS: u64 = 1_000_000_000;

pub struct Net {
    pub w: World,
    pub reg: SegmentRegistry,
    pub exp: u8,
    pub seg_seq: u16,
    pub fail_next_lookup: bool,
    /// every path any lookup delivered
    pub delivered: Vec<ScionPath>,
    pub lookups: usize,
}

pub struct RegFetcher {
    net: Arc<Mutex<Net>>,
    sim: Sim,
}

fn is_peering(p: &ScionPath) -> bool {
    // peering paths are an open finding of C01 (they do not authenticate): kept out of this scenario
    let b = p.dp_path().as_slice();
    if b.len() < 4 {
        return false;
    }
    let meta = u32::from_be_bytes([b[0], b[1], b[2], b[3]]);
    let lens = [(meta >> 12) & 0x3f, (meta >> 6) & 0x3f, meta & 0x3f];
    let n_inf = lens.iter().filter(|l| **l > 0).count();
    (0..n_inf).any(|i| b.get(4 + 8 * i).map(|f| f & 0x02 != 0).unwrap_or(false))
}

impl PathFetcher for RegFetcher {
    fn fetch_paths(&self, src: IsdAsn, dst: IsdAsn) -> impl Future<Output = Result<Vec<ScionPath>, PathFetchError>> + Send + '_ {
        // the control plane answers at once: list segments, sign them as of now, combine
        let now_secs = BASE_SECS + self.sim.now_ns() / NS;
        let mut n = self.net.lock().unwrap();
        n.lookups += 1;
        let res = if n.fail_next_lookup {
            n.fail_next_lookup = false;
            self.sim.fault("lookup-error");
            Err(PathFetchError::InternalError("simulated control-plane outage".into()))
        } else {
            n.seg_seq = n.seg_seq.wrapping_add(7919);
            let when = chrono::DateTime::<chrono::Utc>::from_timestamp(now_secs as i64 - 10, 0).expect("timestamp");
            let listed = n.reg.endhost_list_segments(src, src, dst).map_err(|e| format!("{e}"));
            let paths = listed.and_then(|segs| segs.into_path_segments(&n.w.real, when, n.seg_seq, n.exp).map_err(|e| format!("{e}"))).map(|ps| {
                let cores = ps.iter_cores().cloned().collect();
                let non_cores = ps.iter_non_cores().cloned().collect();
                combine(src, dst, cores, non_cores)
            });
            match paths {
                Ok(v) => {
                    let v: Vec<ScionPath> = v.into_iter().filter(|p| !is_peering(p)).collect();
                    n.delivered.extend(v.iter().cloned());
                    Ok(v)
                }
                Err(e) => Err(PathFetchError::InternalError(e.into())),
            }
        };
        self.sim.log(format!("lookup {src}->{dst}: {}", match &res { Ok(v) => format!("{} paths", v.len()), Err(e) => format!("error {e}") }));
        std::future::ready(res)
    }
}

struct UlState {
    inbox: VecDeque<Vec<u8>>,
    rx_waker: Option<Waker>,
    outbox: VecDeque<Vec<u8>>,
}

/// The host's network interface: what the socket sends waits in `outbox` until the driver lets the network carry it.
pub struct HostNic {
    st: Mutex<UlState>,
}

struct Readable<'a>(&'a HostNic);

impl Future for Readable<'_> {
    type Output = ();
    fn poll(self: Pin<&mut Self>, cx: &mut Context<'_>) -> Poll<()> {
        let mut st = self.0.st.lock().unwrap();
        if !st.inbox.is_empty() {
            return Poll::Ready(());
        }
        st.rx_waker = Some(cx.waker().clone());
        Poll::Pending
    }
}

impl VerifUnderlay for HostNic {
    fn try_send(&self, packet: &[u8]) -> Result<(), io::ErrorKind> {
        self.st.lock().unwrap().outbox.push_back(packet.to_vec());
        Ok(())
    }
    fn try_recv(&self, buf: &mut [u8]) -> Result<usize, io::ErrorKind> {
        match self.st.lock().unwrap().inbox.pop_front() {
            Some(p) => {
                buf[..p.len()].copy_from_slice(&p);
                Ok(p.len())
            }
            None => Err(io::ErrorKind::WouldBlock),
        }
    }
    fn readable(&self) -> Pin<Box<dyn Future<Output = ()> + Send + '_>> {
        Box::pin(Readable(self))
    }
    fn writeable(&self) -> Pin<Box<dyn Future<Output = ()> + Send + '_>> {
        Box::pin(std::future::ready(()))
    }
}

/// The network's side of the host's interface.
struct HostPort {
    nic: Arc<HostNic>,
    seen: Mutex<Vec<Vec<u8>>>,
}

impl Receiver for HostPort {
    fn receive_packet(&self, packet: &ScionRawPacketView) {
        let b = packet.as_slice().to_vec();
        self.seen.lock().unwrap().push(b.clone());
        let w = {
            let mut st = self.nic.st.lock().unwrap();
            st.inbox.push_back(b);
            st.rx_waker.take()
        };
        if let Some(w) = w {
            w.wake();
        }
    }
}

struct RemoteHost {
    inbox: Mutex<Vec<Vec<u8>>>,
}

impl Receiver for RemoteHost {
    fn receive_packet(&self, packet: &ScionRawPacketView) {
        self.inbox.lock().unwrap().push(packet.as_slice().to_vec());
    }
}

type Sock = UdpScionSocket<MultiPathManager<RegFetcher>>;

/// Interfaces a path leaves ASes through, in travel order: (ISD-AS, egress interface), from its metadata.
fn egresses(p: &ScionPath) -> Option<Vec<(u64, u16)>> {
    let ifs = p.metadata()?.interfaces.as_ref()?;
    Some(ifs.iter().step_by(2).map(|i| (i.interface.isd_asn.to_u64(), i.interface.id)).collect())
}

/// What became of one datagram the network carried.
#[derive(Debug, Clone, PartialEq)]
enum Fate {
    Delivered,
    /// SCMP external-interface-down (ISD-AS, interface) came back to the sender
    IfDown(u64, u16),
    /// SCMP parameter problem with this code came back (52 = path expired)
    ParamProblem(u8),
    OtherScmp(u8),
    Lost,
}

struct Sys {
    sim: Sim,
    net: Arc<Mutex<Net>>,
    nic: Arc<HostNic>,
    port: Arc<HostPort>,
    remotes: Vec<(usize, Arc<RemoteHost>)>,
    receivers: NetworkReceiverRegistry,
    externals: ExternalAsRegistry,
    sock: Arc<Sock>,
    mgr: MultiPathManager<RegFetcher>,
    src: usize,
    probes: Arc<Mutex<std::collections::BTreeMap<(u64, u64), PathSetProbe>>>,
    thr_secs: u64,
    swap_thr: f64,
    sends: usize,
    downed: Vec<(usize, u16)>,
    learned: Vec<(u64, u16)>,
}

fn local_addr(ia: IsdAsn) -> ScionSocketIpAddr {
    ScionSocketIpAddr::new(ia, IpAddr::V4(Ipv4Addr::new(10, 0, 0, 2)), 4000)
}

fn remote_addr(ia: IsdAsn) -> ScionSocketIpAddr {
    ScionSocketIpAddr::new(ia, IpAddr::V4(Ipv4Addr::new(10, 0, 1, 1)), 5000)
}

impl Sys {
    fn now_secs(&self) -> u64 {
        BASE_SECS + self.sim.now_ns() / NS
    }

    fn settle(&self) -> RunResult2 {
        if !self.sim.settle(4000) {
            let r = self.sim.runnable();
            if !r.is_empty() && r.iter().all(|a| self.sim.actor_name(*a) == "path-set") {
                return Err(("C07/system/worker-spins".into(), format!("worker actor#{} keeps running at a fixed instant: reports are never acted on", r[0])));
            }
            return Err(("harness/step-budget".into(), "actors still runnable after the step budget".into()));
        }
        if let Some((id, name, msg)) = self.sim.take_panic() {
            return Err(("panic".into(), format!("actor {name}#{id}: {msg}")));
        }
        Ok(())
    }

    /// The application sends one datagram to the host in AS `dst`; returns its marker if the socket emitted a packet.
    fn send(&mut self, dst: usize) -> Result<Option<Vec<u8>>, (String, String)> {
        let dst_ia = self.net.lock().unwrap().w.m.isd_asn(dst);
        self.sends += 1;
        let marker = (0x5E5D_0000_0000_0000u64 | self.sends as u64).to_be_bytes().to_vec();
        let (sock, m2) = (self.sock.clone(), marker.clone());
        let out: Arc<Mutex<Option<Result<(), String>>>> = Arc::new(Mutex::new(None));
        let o2 = out.clone();
        self.sim.log(format!("app send #{} -> {dst_ia}", self.sends));
        let actor: ActorId = self.sim.spawn("caller", async move {
            let r = sock.send_to(&m2, remote_addr(dst_ia)).await;
            *o2.lock().unwrap() = Some(r.map_err(|e| format!("{e}").chars().take(80).collect()));
        });
        self.settle()?;
        let res = out.lock().unwrap().take();
        match res {
            Some(Ok(())) => Ok(Some(marker)),
            Some(Err(e)) => {
                self.sim.log(format!("  send_to failed: {e}"));
                Ok(None)
            }
            None => {
                // still waiting (no lookup is ever outstanding in this scenario: the control plane answers at once)
                self.sim.cancel(actor);
                self.sim.log("  send_to still pending; cancelled".into());
                self.settle()?;
                Ok(None)
            }
        }
    }

    /// The network carries the oldest waiting packet of the host. Returns (packet, fate).
    fn carry_one(&mut self) -> Result<Option<(Vec<u8>, Fate)>, (String, String)> {
        let Some(pkt) = self.nic.st.lock().unwrap().outbox.pop_front() else { return Ok(None) };
        let n_seen = self.port.seen.lock().unwrap().len();
        let n_remote: Vec<usize> = self.remotes.iter().map(|(_, r)| r.inbox.lock().unwrap().len()).collect();
        {
            let net = self.net.lock().unwrap();
            let src_ia = net.w.m.isd_asn(self.src);
            let sim = NetworkSimulator::new(&self.receivers, &self.externals, &net.w.real, false);
            let mut b = pkt.clone();
            if let Ok((v, _)) = ScionRawPacketView::try_from_mut_slice(&mut b) {
                sim.dispatch(src_ia, 0, ScionNetworkTime::from_timestamp_secs(self.now_secs() as u32), v);
            }
        }
        let mut fate = Fate::Lost;
        for (k, (_, r)) in self.remotes.iter().enumerate() {
            if r.inbox.lock().unwrap().len() > n_remote[k] {
                fate = Fate::Delivered;
            }
        }
        let back: Vec<Vec<u8>> = self.port.seen.lock().unwrap()[n_seen..].to_vec();
        for b in back {
            if let Ok((v, _)) = ScionRawPacketView::try_from_slice(&b) {
                if b[4] == 202 {
                    let pl = v.payload();
                    if pl.len() >= 20 && pl[0] == 5 {
                        let ia = u64::from_be_bytes([pl[4], pl[5], pl[6], pl[7], pl[8], pl[9], pl[10], pl[11]]);
                        let ifid = u64::from_be_bytes([pl[12], pl[13], pl[14], pl[15], pl[16], pl[17], pl[18], pl[19]]) as u16;
                        fate = Fate::IfDown(ia, ifid);
                    } else if pl.len() >= 2 && pl[0] == 4 {
                        fate = Fate::ParamProblem(pl[1]);
                    } else if !pl.is_empty() {
                        fate = Fate::OtherScmp(pl[0]);
                    }
                }
            }
        }
        // the host's receive loop picks up what came back; the manager's worker acts on it
        self.settle()?;
        Ok(Some((pkt, fate)))
    }

    fn delivered_path_of(&self, pkt: &[u8]) -> Option<ScionPath> {
        let (v, _) = ScionRawPacketView::try_from_slice(pkt).ok()?;
        let on_wire = v.header().path().to_owned_view();
        let net = self.net.lock().unwrap();
        net.delivered.iter().rev().find(|c| c.dp_path().as_slice() == on_wire.as_slice() && c.dst_ia() == v.header().dst_ia()).cloned()
    }

    fn view(&self, dst_ia: IsdAsn) -> Option<PathSetProbe> {
        let src_ia = self.net.lock().unwrap().w.m.isd_asn(self.src);
        self.probes.lock().unwrap().get(&(src_ia.to_u64(), dst_ia.to_u64())).cloned()
    }
}

pub fn drive_sys(sim: &Sim, mut w: World, prop: &str) -> RunResult2 {
    let n = w.m.ases.len();
    // the SDK host lives in a drawn AS; remote hosts in up to two other ASes reachable from it
    let src = sim.idx(n);
    let mut dsts: Vec<usize> = (0..n).filter(|d| *d != src && w.m.reachable(src, *d)).collect();
    if dsts.is_empty() {
        sim.probe("system-no-reachable-destination");
        return Ok(());
    }
    while dsts.len() > 4 {
        let k = sim.idx(dsts.len());
        dsts.remove(k);
    }
    // steering needs alternatives: mostly talk to the destinations towards which the control plane offers most paths
    if dsts.len() > 2 && sim.chance(3, 4) {
        let reg0 = SegmentRegistry::from_topology(&w.real);
        let when = chrono::DateTime::<chrono::Utc>::from_timestamp(BASE_SECS as i64 - 10, 0).expect("timestamp");
        let count = |d: usize| -> usize {
            let (s_ia, d_ia) = (w.m.isd_asn(src), w.m.isd_asn(d));
            reg0.endhost_list_segments(s_ia, s_ia, d_ia)
                .ok()
                .and_then(|segs| segs.into_path_segments(&w.real, when, 1, 255).ok())
                .map(|ps| combine(s_ia, d_ia, ps.iter_cores().cloned().collect(), ps.iter_non_cores().cloned().collect()).into_iter().filter(|p| !is_peering(p)).count())
                .unwrap_or(0)
        };
        let mut scored: Vec<(usize, usize)> = dsts.iter().map(|d| (count(*d), *d)).collect();
        scored.sort_by(|a, b| b.0.cmp(&a.0).then(a.1.cmp(&b.1)));
        dsts = scored.into_iter().take(2).map(|x| x.1).collect();
    }
    while dsts.len() > 2 {
        let k = sim.idx(dsts.len());
        dsts.remove(k);
    }
    for l in std::mem::take(&mut w.desc) {
        sim.log(l);
    }
    let src_ia = w.m.isd_asn(src);
    let exp = [255u8, 255, 3][sim.idx(3)];
    let reg = SegmentRegistry::from_topology(&w.real);
    let net = Arc::new(Mutex::new(Net { w, reg, exp, seg_seq: sim.draw(65536) as u16, fail_next_lookup: false, delivered: Vec::new(), lookups: 0 }));
    let cfg = draw_config(sim, true);
    sim.log(format!("system: host in {src_ia}, remotes in {:?}, hop expiry units {exp}, swap threshold {}", dsts.iter().map(|d| net.lock().unwrap().w.m.name(*d)).collect::<Vec<_>>(), cfg.path_swap_score_threshold));
    let strategy: PathStrategy = verif_shim::strategy_with_default_scorers();
    let mgr = MultiPathManager::new(cfg.build(), RegFetcher { net: net.clone(), sim: sim.clone() }, strategy).expect("drawn configuration is valid");
    let probes: Arc<Mutex<std::collections::BTreeMap<(u64, u64), PathSetProbe>>> = Arc::new(Mutex::new(Default::default()));
    {
        let probes = probes.clone();
        sim.set_probe_fn(Arc::new(move |key, v| {
            if key == "pathset" {
                if let Some(p) = v.downcast_ref::<PathSetProbe>() {
                    probes.lock().unwrap().insert((p.src.to_u64(), p.dst.to_u64()), p.clone());
                }
            }
        }));
    }
    let nic = Arc::new(HostNic { st: Mutex::new(UlState { inbox: VecDeque::new(), rx_waker: None, outbox: VecDeque::new() }) });
    let port = Arc::new(HostPort { nic: nic.clone(), seen: Mutex::new(Vec::new()) });
    let mut receivers = NetworkReceiverRegistry::new();
    receivers.add_receiver(src_ia, "10.0.0.2/32".parse().unwrap(), port.clone()).expect("receiver");
    let mut remotes = Vec::new();
    for d in &dsts {
        let h = Arc::new(RemoteHost { inbox: Mutex::new(Vec::new()) });
        receivers.add_receiver(net.lock().unwrap().w.m.isd_asn(*d), "10.0.1.1/32".parse().unwrap(), h.clone()).expect("receiver");
        remotes.push((*d, h));
    }
    let sock: Arc<Sock> = Arc::new(udp_socket(nic.clone(), local_addr(src_ia), Arc::new(mgr.clone()), Duration::from_secs(5)));
    {
        let sock = sock.clone();
        sim.spawn("receiver", async move {
            let mut buf = vec![0u8; 4096];
            while sock.recv_from(&mut buf).await.is_ok() {}
        });
    }
    let mut s = Sys {
        sim: sim.clone(),
        net,
        nic,
        port,
        remotes,
        receivers,
        externals: ExternalAsRegistry::new(),
        sock,
        mgr,
        src,
        probes,
        thr_secs: cfg.min_expiry_threshold.as_secs(),
        swap_thr: cfg.path_swap_score_threshold as f64,
        sends: 0,
        downed: Vec::new(),
        learned: Vec::new(),
    };
    s.settle()?;

    let n_ops = 6 + sim.idx(24);
    let mut last_route: Option<Vec<(u64, u16)>> = None;
    let mut last_dst: Option<usize> = None;
    for _ in 0..n_ops {
        match sim.draw(12) {
            // the application sends and the network carries the datagram
            0..=5 => {
                let d = dsts[sim.idx(dsts.len())];
                if s.send(d)?.is_none() {
                    continue;
                }
                let Some((pkt, fate)) = s.carry_one()? else { continue };
                let path = s.delivered_path_of(&pkt);
                if let Some(p) = &path {
                    last_route = egresses(p);
                    last_dst = Some(d);
                }
                sim.log(format!("  network: {fate:?}"));
                sim.probe("system-datagram-carried");
                if fate == Fate::Delivered {
                    sim.probe("system-datagram-delivered");
                }
                sim.probe("oracle-system-datagram-fate");
                // C06, end to end: a path handed to a sender is not expired at that instant - judged by the routers, which
                // check the hop fields against the same clock (the datagram is carried at the instant it was sent)
                if prop == "C06" && fate == Fate::ParamProblem(52) {
                    let exp = path.as_ref().and_then(|p| p.expiration());
                    return Err((
                        "C06/system/expired-path-on-the-wire".into(),
                        format!("the socket sent a datagram over a path which the first router checking it refused as expired at that very instant (now {}, expiry by the path's metadata {exp:?})", s.now_secs()),
                    ));
                }
                if let Fate::IfDown(x, i) = fate {
                    sim.probe("system-scmp-interface-down-learned");
                    s.learned.push((x, i));
                    if prop == "C07" {
                        check_steering(&mut s, d, x, i, path.as_ref())?;
                    }
                }
            }
            // a link under the traffic breaks
            6 | 7 => {
                let Some(route) = &last_route else { continue };
                if route.is_empty() {
                    continue;
                }
                // mostly a link that some other cached path to the same destination avoids (so that steering is possible)
                let mut pick = route[sim.idx(route.len())];
                if sim.chance(3, 4) {
                    let dst_ia = last_dst.map(|d| s.net.lock().unwrap().w.m.isd_asn(d));
                    if let Some(view) = dst_ia.and_then(|ia| s.view(ia)) {
                        let others: Vec<Vec<(u64, u16)>> = view.cached.iter().filter_map(|(p, _, _)| egresses(p)).filter(|e| e != route).collect();
                        let avoidable: Vec<(u64, u16)> = route.iter().copied().filter(|l| others.iter().any(|o| !o.contains(l))).collect();
                        if !avoidable.is_empty() {
                            pick = avoidable[sim.idx(avoidable.len())];
                            sim.probe("system-link-down-avoidable");
                        }
                    }
                }
                let (x, i) = pick;
                let mut net = s.net.lock().unwrap();
                let Some(a) = net.w.m.idx_of(x) else { continue };
                if i == 0 {
                    continue;
                }
                if let Some(l) = net.w.real.mut_scion_link(&IsdAsn::from_u64(x), i) {
                    l.set_is_up(false);
                }
                net.w.m.set_up(a, i, false);
                drop(net);
                s.downed.push((a, i));
                sim.fault("link-down");
                sim.log(format!("link {}#{i} goes down", IsdAsn::from_u64(x)));
            }
            // a broken link is repaired
            8 => {
                if s.downed.is_empty() {
                    continue;
                }
                let (a, i) = s.downed.remove(sim.idx(s.downed.len()));
                let mut net = s.net.lock().unwrap();
                let ia = net.w.m.isd_asn(a);
                if let Some(l) = net.w.real.mut_scion_link(&ia, i) {
                    l.set_is_up(true);
                }
                net.w.m.set_up(a, i, true);
                sim.fault("link-up");
                sim.log(format!("link {ia}#{i} comes back"));
            }
            // time passes
            9 | 10 => {
                let now = sim.now_ns();
                let t = match sim.idx(4) {
                    0 => sim.next_timer().unwrap_or(now + NS),
                    1 => now + (1 + sim.draw(30)) * NS,
                    2 => now + (60 + sim.draw(600)) * NS,
                    _ => now + (1 + sim.draw(20_000)) * NS,
                };
                sim.fault("clock-advance");
                sim.log(format!("clock +{}s", (t.saturating_sub(now)) / NS));
                if sim.chance(1, 3) {
                    // the host was busy (or suspended): the clock has moved on, the woken tasks have not run yet - whatever
                    // the application does next races with them
                    sim.set_now(t);
                    sim.fault("clock-jump-before-timers-run");
                    continue;
                }
                // timers fire in order up to t
                for _ in 0..64 {
                    match sim.next_timer() {
                        Some(tt) if tt <= t => {
                            sim.set_now(tt);
                            s.settle()?;
                        }
                        _ => break,
                    }
                }
                sim.set_now(t.max(sim.now_ns()));
                s.settle()?;
            }
            // the control plane is unreachable for the next lookup
            _ => {
                s.net.lock().unwrap().fail_next_lookup = true;
            }
        }
    }
    drop(s);
    Ok(())
}

/// The stack has just learned, from the network itself, that (x, i) is broken.  If the manager knows another valid path
/// to `dst` that does not leave x through i – nor through any other interface reported broken in this history – the very
/// next datagram must not come back with the same error.
fn check_steering(s: &mut Sys, dst: usize, x: u64, i: u16, used: Option<&ScionPath>) -> RunResult2 {
    let sim = s.sim.clone();
    let dst_ia = s.net.lock().unwrap().w.m.isd_asn(dst);
    let Some(view) = s.view(dst_ia) else { return Ok(()) };
    // the report must concern the path that was in use, by the path's own metadata (otherwise the router's report and the
    // control plane's metadata disagree about interface numbering - that would be a finding of its own)
    let Some(used) = used else { return Ok(()) };
    let Some(used_eg) = egresses(used) else { return Ok(()) };
    if !used_eg.contains(&(x, i)) {
        return Err((
            "C07/system/report-names-interface-not-on-path".into(),
            format!("the network answered a datagram sent over {:?} with external-interface-down ({}, {i}), an interface the path's metadata does not list as an egress", used_eg, IsdAsn::from_u64(x)),
        ));
    }
    let now = s.now_secs();
    let learned = s.learned.clone();
    let alts: Vec<&ScionPath> = view
        .cached
        .iter()
        .map(|(p, _, _)| p)
        .filter(|p| p.expiration().map(|e| e as u64 > now + s.thr_secs + 1).unwrap_or(false))
        .filter(|p| egresses(p).map(|eg| !eg.iter().any(|e| learned.contains(e))).unwrap_or(false))
        .collect();
    sim.probe("oracle-system-steering-premise");
    sim.probe(match view.cached.len() {
        0 => "system-premise-cached-0",
        1 => "system-premise-cached-1",
        2 => "system-premise-cached-2",
        _ => "system-premise-cached-3-or-more",
    });
    if alts.is_empty() || 1.0 <= s.swap_thr + 0.02 {
        return Ok(());
    }
    let alt_desc: Vec<String> = alts.iter().map(|p| format!("{:#}", p.fingerprint()).chars().take(4).collect()).collect();
    // the very next send
    if s.send(dst)?.is_none() {
        return Err(("C07/system/no-path-after-report".into(), format!("after external-interface-down ({}, {i}) the next send got no path although alternatives {alt_desc:?} avoiding it are cached", IsdAsn::from_u64(x))));
    }
    let Some((pkt, fate)) = s.carry_one()? else { return Ok(()) };
    sim.log(format!("  network (next datagram): {fate:?}"));
    sim.probe("oracle-system-steering");
    if fate == Fate::IfDown(x, i) {
        let again = s.delivered_path_of(&pkt).and_then(|p| egresses(&p));
        return Err((
            "C07/system/no-switch".into(),
            format!(
                "the stack learned from the network that {}#{i} is down, valid cached paths {alt_desc:?} avoid it, yet the very next datagram left over {:?} and came back with the same error",
                IsdAsn::from_u64(x),
                again
            ),
        ));
    }
    if let Fate::IfDown(x2, i2) = fate {
        s.learned.push((x2, i2));
    }
    sim.probe("system-steered-away");
    Ok(())
}
