//! Issue-report operations with the C07 oracle, and the fault-free final phase (bounded liveness, C06).

use crate::hist::*;
use crate::world::*;

const NS: u64 = 1_000_000_000;

impl<'a> Hist<'a> {
    pub fn route_of_fp(&self, fp: &str) -> Option<usize> {
        self.fp_route.get(fp).copied()
    }

    /// (active route, cached routes with expiry) of the pair's live worker at this quiescent point.
    pub fn view(&self, pair: Pair) -> Option<(Option<usize>, Vec<(usize, u32)>)> {
        let w = self.live_worker(pair)?;
        let (pr, _, actor) = self.probes.lock().unwrap().get(&pair_key(pair)).cloned()?;
        if actor != Some(w) {
            return None;
        }
        let active = pr.active.map(|f| format!("{f:#}")).and_then(|f| self.route_of_fp(&f));
        let cached = pr.cached.iter().filter_map(|(p, _, _)| self.route_of_fp(&fp_str(p)).map(|r| (r, p.expiration().unwrap_or(0)))).collect();
        Some((active, cached))
    }

    /// Upper bound of the penalty a route may still carry (slowest documented decay: 90 s half-life).
    pub fn residual_penalty(&self, route: usize, now_ns: u64) -> f64 {
        let mut s = 0.0;
        for p in &self.penalties {
            if p.report.concerns(&self.routes[route].hops) {
                // decays from the instant the worker could process it; not yet processed = undecayed
                let t0 = p.t_eff[self.routes[route].dst].unwrap_or(now_ns);
                let dt = (now_ns.saturating_sub(t0)) as f64 / 1e9;
                s += p.report.penalty() * 2f64.powf(-dt / 90.0);
            }
        }
        s
    }

    /// Lower bound of the freshest penalty on a route (fastest documented decay: 30 s half-life).  A report counts
    /// if the SDK certainly applied it to the route: the route was cached when the report arrived, or the issue was
    /// still in the issue memory (fewer distinct reports since than its configured size) when the route was fetched.
    /// A report that arrived while a lookup of the pair was outstanding is stamped by the worker with that lookup's
    /// start time (the clock reading it took before the fetch): the bound decays from there.
    pub fn fresh_penalty(&self, route: usize, now_ns: u64) -> (f64, Option<Report>) {
        let mut best = (0.0, None);
        let since = self.in_cache_since.get(&route).copied();
        let pair = self.pair(self.routes[route].dst);
        for (k, p) in self.penalties.iter().enumerate() {
            if !p.report.concerns(&self.routes[route].hops) || !p.certain {
                continue;
            }
            let cached_then = since.map(|s| p.step >= s.1).unwrap_or(false);
            // every report the stack accepted since takes a slot of the issue memory's FIFO, re-reports of the same issue
            // included (and with equal timestamps the oldest of them evicts the entry): "certainly still remembered" means
            // fewer reports since than slots
            let later = self.penalties[k + 1..].len();
            let still_remembered = later + 1 < self.cfg.issue_cache_size;
            if !(cached_then || (since.is_some() && still_remembered)) {
                continue;
            }
            let t0 = self.lookup_start_covering(pair, p.t_ns).unwrap_or(p.t_ns).min(p.t_ns);
            let dt = (now_ns.saturating_sub(t0)) as f64 / 1e9;
            let v = p.report.penalty() * 2f64.powf(-dt / 30.0);
            if v > best.0 {
                best = (v, Some(p.report.clone()));
            }
        }
        best
    }

    /// Start time of the lookup of `pair` that was outstanding when something happened at `t_ns`, if any.
    pub fn lookup_start_covering(&self, pair: Pair, t_ns: u64) -> Option<u64> {
        let st = self.fetch.lock().unwrap();
        st.reqs.iter().filter(|r| r.pair == pair && r.start_ns <= t_ns && ((r.outcome.is_none() && !r.dropped) || r.done_ns.map(|d| d >= t_ns).unwrap_or(false))).map(|r| r.start_ns).min()
    }

    /// Is a lookup of `pair` that started at or before `t_ns` still outstanding?  Then the worker has not been able
    /// to act on anything reported since.
    pub fn lookup_still_outstanding_since(&self, pair: Pair, t_ns: u64) -> bool {
        let st = self.fetch.lock().unwrap();
        // the lookup outstanding at t_ns, then every lookup started at the very instant its predecessor finished
        // (the worker's biased select runs a due maintenance tick before it polls the issue channel): the worker
        // has been busy without a break iff this chain ends in a lookup that is still outstanding
        let live = self.workers.iter().rev().find(|w| w.pair == Some(pair) && !self.sim.is_finished(w.actor)).map(|w| w.actor);
        let mut cur = st.reqs.iter().filter(|r| r.pair == pair && r.actor == live && r.start_ns <= t_ns && ((r.outcome.is_none() && !r.dropped) || r.done_ns.map(|d| d >= t_ns).unwrap_or(false))).min_by_key(|r| r.id);
        for _ in 0..64 {
            let Some(r) = cur else { return false };
            if r.dropped {
                return false;
            }
            let Some(done) = r.done_ns else { return r.outcome.is_none() || true };
            cur = st.reqs.iter().find(|n| n.pair == pair && n.id > r.id && n.actor == r.actor && n.start_ns == done);
        }
        false
    }

    pub fn clean_valid_alternatives(&self, pair: Pair, not_concerned_by: Option<&Report>, exclude: Option<usize>) -> Vec<usize> {
        let now_ns = self.sim.now_ns();
        let now = self.now_secs();
        let thr = self.cfg.min_expiry_threshold.as_secs() as u32;
        let Some((_, cached)) = self.view(pair) else { return vec![] };
        cached
            .iter()
            .filter(|(r, e)| Some(*r) != exclude && *e > now + thr && self.residual_penalty(*r, now_ns) < 0.05 && not_concerned_by.map(|rep| !rep.concerns(&self.routes[*r].hops)).unwrap_or(true))
            .map(|(r, _)| *r)
            .collect()
    }

    /// Did the report delivered at `t_ns` arrive while a lookup of `pair`'s worker was outstanding?  The worker
    /// does not poll the issue channel during a fetch and afterwards keeps using the clock reading taken before
    /// it: such a report is acted on late and stamped with the lookup's start time.
    pub fn lookup_outstanding_since_before(&self, pair: Pair, t_ns: u64) -> bool {
        let st = self.fetch.lock().unwrap();
        st.reqs.iter().any(|r| r.pair == pair && r.start_ns <= t_ns && ((r.outcome.is_none() && !r.dropped) || r.done_ns.map(|d| d >= t_ns).unwrap_or(false)))
    }

    pub fn op_report_drawn(&mut self) -> RunResult2 {
        let sim = self.sim.clone();
        // choose a report
        let pairs: Vec<Pair> = (0..self.n_dst).map(|d| self.pair(d)).collect();
        let mut actives: Vec<usize> = Vec::new();
        for p in &pairs {
            if let Some((Some(a), _)) = self.view(*p) {
                actives.push(a);
            }
        }
        let kind = sim.idx(10);
        let tag = sim.idx(3) as u8;
        let pick_route = |h: &Hist| -> usize {
            if !actives.is_empty() && sim.chance(2, 3) { actives[sim.idx(actives.len())] } else { sim.idx(h.routes.len()) }
        };
        let rep = match kind {
            0..=3 => {
                let r = pick_route(self);
                let hops = &self.routes[r].hops;
                let h = &hops[sim.idx(hops.len() - 1)]; // any hop with an egress
                Report::ExtIfDown { asn: h.asn, ifid: h.eg, tag }
            }
            4 => {
                let r = pick_route(self);
                let hops = &self.routes[r].hops;
                if hops.len() > 2 {
                    let h = &hops[1 + sim.idx(hops.len() - 2)];
                    Report::IntConnDown { asn: h.asn, ing: h.ing, eg: h.eg, tag }
                } else {
                    Report::ExtIfDown { asn: hops[0].asn, ifid: hops[0].eg, tag }
                }
            }
            5 | 6 => {
                let r = pick_route(self);
                Report::FirstHop { ifid: self.routes[r].hops[0].eg }
            }
            7 => Report::ExtIfDown { asn: 0x999, ifid: 1 + sim.idx(3) as u16, tag },
            9 => {
                // another local AS of the same host reports a first-hop failure on an interface *number* that paths of
                // this AS use too
                let r = pick_route(self);
                Report::FirstHopForeign { asn: 0x120, ifid: self.routes[r].hops[0].eg }
            }
            _ => match self.penalties.last() {
                Some(p) => {
                    sim.fault("report-duplicate");
                    p.report.clone()
                }
                None => Report::FirstHop { ifid: 1 },
            },
        };
        // never exceed the broadcast capacity between two worker steps (a lagged receiver loses reports: the stack
        // has then not "learned" of them; that robustness question is outside this property)
        let any_outstanding = !self.fetch.lock().unwrap().outstanding().is_empty();
        if any_outstanding {
            self.reports_during_lookup += 1;
            if self.reports_during_lookup >= self.cfg.issue_broadcast_size.saturating_sub(1).max(1) && self.prop == "C07" {
                return Ok(());
            }
        } else {
            self.reports_during_lookup = 0;
        }
        let now_ns = sim.now_ns();
        let dd = self.cfg.issue_deduplication_window.as_nanos() as u64;
        // a duplicate is ignored by the stack - if its bounded issue memory still holds the earlier identical report
        let earlier = self.penalties.iter().rposition(|p| format!("{:?}", p.report) == format!("{rep:?}") && now_ns - p.t_ns < dd);
        let is_dup = earlier.is_some();
        let dup_certain = earlier
            .map(|k| {
                self.penalties[k + 1..].len() + 1 < self.cfg.issue_cache_size
            })
            .unwrap_or(false);
        let before: Vec<Option<(Option<usize>, Vec<(usize, u32)>)>> = pairs.iter().map(|p| self.view(*p)).collect();
        let refused_before = self.stack.as_ref().map(|s| s.ul.st.lock().unwrap().failed).unwrap_or(0);
        self.op_report(rep.clone());
        let mut pushed = true;
        if is_dup && dup_certain {
            // the stack ignores it: it carries no penalty
            self.penalties.pop();
            pushed = false;
        } else if is_dup {
            // ignored or applied, depending on what the issue memory still holds: nothing is demanded of it, but paths
            // it concerns do not count as clean
            if let Some(p) = self.penalties.last_mut() {
                p.certain = false;
            }
            sim.probe("report-possibly-duplicate");
        }
        self.settle_and_check(2000)?;
        if let (Some(s), Report::FirstHop { .. }) = (&self.stack, &rep) {
            // stack mode: the failure is learned only if a packet really met the refusing interface
            let mut st = s.ul.st.lock().unwrap();
            let happened = st.failed > refused_before;
            st.fail_first_hop = None;
            drop(st);
            if !happened {
                if pushed {
                    self.penalties.pop();
                }
                sim.probe("stack-first-hop-refusal-not-met");
                return Ok(());
            }
            sim.probe("stack-first-hop-refused");
            sim.fault("first-hop-send-refused");
        }
        if self.prop != "C07" {
            return Ok(());
        }
        let concerns_any_cached = before.iter().flatten().any(|(_, c)| c.iter().any(|(r, _)| rep.concerns(&self.routes[*r].hops)));
        for (i, pair) in pairs.iter().enumerate() {
            let Some((a_before, _)) = &before[i] else { continue };
            let Some((a_after, _)) = self.view(*pair) else { continue };
            let outstanding = self.fetch.lock().unwrap().outstanding_for(*pair);
            if !concerns_any_cached {
                sim.probe("report-unrelated");
                sim.probe("oracle-unrelated");
                if *a_before != a_after && !outstanding {
                    self.violate_pub("C07/unrelated-report-changed-active", format!("report {rep:?} concerns no cached path, yet the active path of ->{} changed from r{:?} to r{:?}", pair.1, a_before, a_after))?;
                }
                continue;
            }
            let Some(a) = a_before else { continue };
            if !rep.concerns(&self.routes[*a].hops) || is_dup {
                continue;
            }
            sim.probe("report-concerns-active");
            let alts = self.clean_valid_alternatives(*pair, Some(&rep), Some(*a));
            if alts.is_empty() {
                continue;
            }
            // "the very next send"
            let n0 = self.handouts.lock().unwrap().len();
            if self.stack.is_some() {
                self.op_send(*pair);
            } else {
                self.op_try_send(*pair);
            }
            self.settle_and_check(2000)?;
            let h = self.handouts.lock().unwrap().get(n0).cloned();
            sim.probe("switch-checked");
            sim.probe("oracle-switch");
            if let Some(Handout { res: HandRes::Path(p), .. }) = h {
                if let Some(r) = self.route_of_fp(&fp_str(&p)) {
                    if rep.concerns(&self.routes[r].hops) {
                        let mut tags = String::new();
                        if rep.penalty() <= self.cfg.path_swap_score_threshold as f64 + 0.02 {
                            tags.push_str(" [penalty below swap threshold]");
                        }
                        if self.lookup_still_outstanding_since(*pair, now_ns) {
                            tags.push_str(" [lookup outstanding since before the report: the worker cannot act yet]");
                        }
                        self.violate_pub(
                            "C07/no-switch",
                            format!("after {rep:?} the very next send to ->{} still uses r{r} although valid unpenalised alternatives {alts:?} avoiding the failed interface are cached{tags}", pair.1),
                        )?;
                    } else {
                        sim.probe("switched-away");
                    }
                }
            }
        }
        Ok(())
    }

    /// "A failure report that matches no path in use changes nothing": a cached path that no report of this history
    /// concerns carries no penalty (its reliability score is exactly neutral).
    pub fn check_unwarranted_penalties(&mut self) -> RunResult2 {
        if self.prop != "C07" {
            return Ok(());
        }
        for d in 0..self.n_dst {
            let pair = self.pair(d);
            let Some(w) = self.live_worker(pair) else { continue };
            let Some((pr, _, actor)) = self.probes.lock().unwrap().get(&pair_key(pair)).cloned() else { continue };
            if actor != Some(w) {
                continue;
            }
            for (p, _, reliability) in &pr.cached {
                let Some(r) = self.route_of_fp(&fp_str(p)) else { continue };
                // every report ever handed to the stack counts here, also duplicates that were popped from the penalty
                // list (`all_reports`)
                if self.all_reports.iter().any(|rep| rep.concerns(&self.routes[r].hops)) {
                    continue;
                }
                self.sim.probe("oracle-unwarranted-penalty");
                if *reliability < -1e-4 {
                    let reps: Vec<String> = self.all_reports.iter().map(|r| format!("{r:?}")).collect();
                    return self.violate_pub(
                        "C07/path-penalised-without-a-matching-report",
                        format!("cached path r{r} ({}) carries a penalty ({reliability:.3}) although none of the reports of this history concerns it: {reps:?}", self.routes[r].describe()),
                    );
                }
            }
        }
        Ok(())
    }

    /// Update, at a quiescent point, since when each route has been continuously cached by a live worker.
    pub fn track_cache_membership(&mut self) {
        // membership is recorded at every state the worker publishes (hist.rs, probe callback); a dead worker's record is void
        let mut out: std::collections::BTreeMap<usize, (u64, u64)> = Default::default();
        for d in 0..self.n_dst {
            let pair = self.pair(d);
            if self.view(pair).is_none() {
                continue;
            }
            let key = pair_key(pair);
            for ((k, f), since) in self.member_since.lock().unwrap().iter() {
                if *k == key {
                    if let Some(r) = self.route_of_fp(f) {
                        out.insert(r, *since);
                    }
                }
            }
        }
        self.in_cache_since = out;
    }

    /// C07 (2): a path carrying a fresh penalty is not handed out while a clean valid alternative is cached.
    pub fn check_fresh_penalty(&mut self, pair: Pair, route: usize, t_ns: u64) -> RunResult2 {
        if self.prop != "C07" || t_ns != self.sim.now_ns() {
            return Ok(());
        }
        let (fresh, rep) = self.fresh_penalty(route, t_ns);
        let thr = self.cfg.path_swap_score_threshold as f64;
        if fresh > thr + 0.15 {
            let alts = self.clean_valid_alternatives(pair, None, Some(route));
            self.sim.probe("oracle-fresh");
            if !alts.is_empty() {
                let rep_t = self.penalties.iter().rev().find(|p| Some(&p.report) == rep.as_ref()).map(|p| p.t_ns).unwrap_or(u64::MAX);
                let tags = if self.lookup_still_outstanding_since(pair, rep_t) { " [lookup outstanding since before the report: the worker cannot act yet]" } else { "" };
                return self.violate_pub(
                    "C07/fresh-penalised-path-used",
                    format!("r{route} handed out while it carries a fresh penalty (≥{fresh:.2}, from {rep:?}) and unpenalised valid alternatives {alts:?} are cached{tags}"),
                );
            }
        }
        Ok(())
    }

    /// Faults stop: every lookup now succeeds with long-lived paths.  Within the back-off ceiling plus the minimum
    /// refetch delay every pair with a policy-compliant route must be served again.
    pub fn final_phase(&mut self) -> RunResult2 {
        if self.prop == "C07" {
            return Ok(());
        }
        let sim = self.sim.clone();
        sim.log("final phase: faults stop".into());
        let ceiling = (self.cfg.fetch_failure_backoff.maximum_delay_secs as f64).max(self.cfg.min_refetch_delay.as_secs_f64());
        let bound_ns = ((ceiling + self.cfg.min_refetch_delay.as_secs_f64() + 2.0) * 1e9) as u64;
        self.fetch.lock().unwrap().planned.clear();
        self.op_gc();
        let t_end = sim.now_ns() + bound_ns;
        for _ in 0..400 {
            while !self.fetch.lock().unwrap().outstanding().is_empty() {
                self.op_complete(0, true);
                self.settle_and_check(2000)?;
            }
            match sim.next_timer() {
                Some(t) if t <= t_end => {
                    sim.set_now(t);
                    self.settle_and_check(2000)?;
                }
                _ => break,
            }
        }
        sim.set_now(t_end);
        self.settle_and_check(2000)?;
        for d in 0..self.n_dst {
            let pair = self.pair(d);
            let ok_route = (0..self.routes.len()).any(|i| self.routes[i].dst == d && self.policies.accepts(&build_path(&self.routes[i], self.now_secs() + 6 * 3600, true)));
            if !ok_route {
                continue;
            }
            // only pairs the run ever asked for are the manager's business
            if self.live_worker(pair).is_none() && !self.workers.iter().any(|w| w.pair == Some(pair)) {
                continue;
            }
            let n0 = self.handouts.lock().unwrap().len();
            self.op_send(pair);
            for _ in 0..8 {
                self.settle_and_check(2000)?;
                if self.fetch.lock().unwrap().outstanding().is_empty() {
                    break;
                }
                self.op_complete(0, true);
            }
            self.settle_and_check(2000)?;
            let h = self.handouts.lock().unwrap().get(n0).cloned();
            sim.probe("final-liveness-checked");
            sim.probe("oracle-liveness");
            match h {
                Some(Handout { res: HandRes::Path(_), .. }) => {}
                Some(Handout { res, .. }) => {
                    self.violate_pub("C06/no-recovery", format!("lookups succeed again, yet {}s later a send to ->{} got {res:?}", bound_ns / NS, pair.1))?;
                }
                None => {
                    self.violate_pub("C06/no-recovery", format!("lookups succeed again, yet a sender to ->{} is still blocked with no lookup outstanding", pair.1))?;
                }
            }
        }
        Ok(())
    }
}
