//! C20 — waiting senders always wake; concurrent first requests start one worker; dropping the manager stops
//! its workers.  Pre-emptive schedules: every baton hand-over, every pre-emption at a hooked lock / slot / map
//! operation, every lookup completion, cancellation, removal, garbage collection and idle expiry is a draw.

use std::sync::{Arc, Mutex};

use simrt::{AState, ActorId};

use crate::hist::*;
use crate::world::*;

struct Caller {
    actor: ActorId,
    pair: Pair,
    cancelled: bool,
    waiting: bool, // path_wait (true) or cached_path (false)
    /// number of removal requests (stop, idle expiry, drop) issued before this caller was created
    removals_before: usize,
    caller_no: usize,
}

pub fn drive_c20(h: &mut Hist) -> RunResult2 {
    let sim = h.sim.clone();
    // scenario knobs
    let pure_race = sim.chance(1, 2); // only concurrent first requests + lookup completion: single-worker clause is judged
    let n_callers = 1 + sim.idx(4);
    let two_pairs = h.n_dst > 1 && sim.chance(1, 3);
    let budget = 150 + sim.idx(250) as u64;
    // A quarter of the runs use priority scheduling in the style of PCT instead of uniform random choice: every actor gets
    // a drawn priority, every hooked point yields to the driver, the driver always resumes the runnable actor of highest
    // priority, and at 1-3 drawn steps the running actor's priority drops below all others. This finds orderings that
    // need one task to be starved for a long stretch, which uniform choice reaches with vanishing probability.
    let pct = sim.chance(1, 4);
    let mut prio: std::collections::BTreeMap<ActorId, i64> = Default::default();
    let mut change_points: Vec<u64> = Vec::new();
    let mut low: i64 = 0;
    let mut resumes: u64 = 0;
    if pct {
        sim.set_preempt(1, 1);
        for _ in 0..1 + sim.idx(3) {
            change_points.push(1 + sim.draw(120));
        }
        sim.probe("pct-schedule");
    }
    sim.log(format!("c20 scenario pure_race={pure_race} callers={n_callers} two_pairs={two_pairs} pct={pct}"));
    let mut callers: Vec<Caller> = Vec::new();
    let mut spawned = 0usize;
    let mut removal_events = 0usize;
    let mut dropped_mgr = false;
    let mut pairs_requested: Vec<Pair> = Vec::new();
    let mut steps = 0u64;
    let mut seen_handouts = 0usize;
    let mut stops: Vec<ActorId> = Vec::new();

    loop {
        steps += 1;
        if steps > budget {
            break;
        }
        check_quiescent(h, &callers)?;
        let runnable = sim.runnable();
        let outstanding = h.fetch.lock().unwrap().outstanding();
        let all_done = spawned == n_callers && callers.iter().all(|c| sim.is_finished(c.actor));
        if all_done && runnable.is_empty() && outstanding.is_empty() {
            break;
        }
        // weights: run an actor (high), complete a lookup, new caller, controller ops, clock, gc, cancel
        let mut opts: Vec<(u8, u64)> = Vec::new();
        if !runnable.is_empty() {
            opts.push((0, 12));
        }
        if !outstanding.is_empty() {
            opts.push((1, 3));
        }
        if spawned < n_callers && !dropped_mgr {
            opts.push((2, 4));
        }
        if !pure_race && !dropped_mgr {
            opts.push((3, 1)); // stop_managing
            opts.push((4, 1)); // gc
            opts.push((5, 1)); // clock to next timer (idle / refetch)
            if callers.iter().any(|c| !c.cancelled && !sim.is_finished(c.actor)) {
                opts.push((6, 1)); // cancel a caller
            }
            if spawned == n_callers {
                opts.push((7, 1)); // drop the manager handle
            }
        }
        if opts.is_empty() {
            break;
        }
        let total: u64 = opts.iter().map(|o| o.1).sum();
        let mut x = sim.draw(total);
        let mut op = opts[0].0;
        for (o, w) in &opts {
            if x < *w {
                op = *o;
                break;
            }
            x -= w;
        }
        match op {
            0 if pct => {
                for a in &runnable {
                    if !prio.contains_key(a) {
                        let p = 1000 + sim.draw(1 << 20) as i64;
                        prio.insert(*a, p);
                    }
                }
                let a = *runnable.iter().max_by_key(|a| (prio[*a], **a)).expect("runnable");
                resumes += 1;
                if change_points.contains(&resumes) {
                    low -= 1;
                    prio.insert(a, low);
                    sim.probe("pct-priority-change");
                }
                sim.resume(a);
            }
            0 => {
                let k = if runnable.len() == 1 { 0 } else { sim.idx(runnable.len()) };
                sim.resume(runnable[k]);
            }
            1 => {
                let k = sim.idx(outstanding.len());
                // outcome kinds: ok / empty / error, all meaningful for wake-ups
                h.op_complete(k, sim.chance(1, 2));
            }
            2 => {
                let pair = if two_pairs && sim.chance(1, 2) { h.pair(1) } else { h.pair(0) };
                if !pairs_requested.contains(&pair) {
                    pairs_requested.push(pair);
                }
                // kinds: path_wait (holds the manager), cached_path (never waits), a wait on the handle alone
                let kind = sim.draw(8);
                let waiting = kind < 6;
                let actor = match kind {
                    0..=4 => h.op_send(pair),
                    5 => {
                        sim.probe("handle-waiter");
                        h.op_handle_wait(pair)
                    }
                    _ => h.op_try_send(pair),
                };
                // removal requests that are *over* (their actor finished) when the caller is created
                let all_over = stops.iter().all(|a| sim.is_finished(*a));
                callers.push(Caller { actor, pair, cancelled: false, waiting, removals_before: if all_over { removal_events } else { usize::MAX }, caller_no: h.callers - 1 });
                spawned += 1;
            }
            3 => {
                removal_events += 1;
                let pair = h.pair(0);
                stops.push(h.op_stop(pair));
            }
            4 => h.op_gc(),
            5 => {
                if let Some(t) = sim.next_timer() {
                    removal_events += 1; // an idle removal may follow
                    sim.log(format!("clock ->timer +{}ms", (t.saturating_sub(sim.now_ns())) / 1_000_000));
                    sim.set_now(t);
                }
            }
            6 => {
                let live: Vec<usize> = (0..callers.len()).filter(|i| !callers[*i].cancelled && !sim.is_finished(callers[*i].actor)).collect();
                let i = live[sim.idx(live.len())];
                callers[i].cancelled = true;
                sim.log(format!("cancel caller actor#{}", callers[i].actor));
                sim.fault("caller-cancelled");
                sim.cancel(callers[i].actor);
            }
            _ => {
                if let Some(m) = h.mgr.take() {
                    dropped_mgr = true;
                    sim.log("drop manager handle".into());
                    sim.fault("manager-dropped");
                    sim.spawn("dropper", async move {
                        drop(m);
                    });
                }
            }
        }
        if let Some((id, name, msg)) = sim.take_panic() {
            return Err(("panic".into(), format!("actor {name}#{id}: {msg}")));
        }
        check_outcomes(h, &mut seen_handouts, removal_events == 0 && !dropped_mgr, &callers, removal_events, dropped_mgr)?;
    }

    // ---- wind down: every lookup completes, everything runs to quiescence (pre-emption stays on)
    for _ in 0..2000 {
        check_quiescent(h, &callers)?;
        let runnable = sim.runnable();
        if !runnable.is_empty() {
            let k = if runnable.len() == 1 { 0 } else { sim.idx(runnable.len()) };
            sim.resume(runnable[k]);
            continue;
        }
        let out = h.fetch.lock().unwrap().outstanding();
        if !out.is_empty() {
            h.op_complete(0, true);
            continue;
        }
        break;
    }
    if let Some((id, name, msg)) = sim.take_panic() {
        return Err(("panic".into(), format!("actor {name}#{id}: {msg}")));
    }
    if !sim.runnable().is_empty() {
        // A worker that takes step after step at one instant never suspends. A caller that is blocked although no lookup
        // for its pair is outstanding is then never released.
        let r = sim.runnable();
        if r.iter().all(|a| sim.actor_name(*a) == "path-set") {
            for c in &callers {
                if !c.cancelled && !sim.is_finished(c.actor) && !h.fetch.lock().unwrap().outstanding_for(c.pair) {
                    return Err((
                        "C20/lost-wakeup".into(),
                        format!("caller actor#{} is blocked, no lookup for {}->{} is outstanding and the only runnable actor, worker actor#{}, keeps running at a fixed instant without releasing it (at {})", c.actor, c.pair.0, c.pair.1, r[0], sim.actor_at(r[0])),
                    ));
                }
            }
        }
        if r.iter().all(|a| sim.actor_name(*a) == "path-set") {
            // a spinning worker with nobody waiting on it: what C06 judges (re-attempts), not C20. The run cannot be wound
            // down; it is abandoned and counted.
            sim.probe("run-abandoned-worker-spins");
            // Before abandoning: does a caller that arrives now, after every cached path has expired, get released?
            if !dropped_mgr && h.mgr.is_some() {
                sim.set_now(sim.now_ns() + 2 * 86_400 * 1_000_000_000);
                sim.log("clock +2d (worker spins; late caller probe)".into());
                for _ in 0..64 {
                    let r = sim.runnable();
                    if r.is_empty() {
                        break;
                    }
                    sim.resume(r[0]);
                }
                for pair in pairs_requested.clone() {
                    let actor = h.op_send(pair);
                    for _ in 0..400 {
                        let r = sim.runnable();
                        if r.is_empty() || sim.is_finished(actor) {
                            break;
                        }
                        let k = if r.len() == 1 { 0 } else { sim.idx(r.len()) };
                        sim.resume(r[k]);
                    }
                    let r = sim.runnable();
                    if !sim.is_finished(actor) && !r.contains(&actor) && !h.fetch.lock().unwrap().outstanding_for(pair) && r.iter().all(|a| sim.actor_name(*a) == "path-set") {
                        return Err((
                            "C20/lost-wakeup".into(),
                            format!("caller actor#{actor} is blocked, no lookup for {}->{} is outstanding and the only runnable actor is a worker that keeps running at a fixed instant without starting one: nothing will release the caller", pair.0, pair.1),
                        ));
                    }
                }
            }
            return Ok(());
        }
        return Err(("harness/step-budget".into(), "actors still runnable after the wind-down budget".into()));
    }
    check_outcomes(h, &mut seen_handouts, removal_events == 0 && !dropped_mgr, &callers, removal_events, dropped_mgr)?;
    check_quiescent(h, &callers)?;
    sim.probe("oracle-released");

    // every caller that was not cancelled has been released, with a path or an error
    for c in &callers {
        if !c.cancelled && !sim.is_finished(c.actor) {
            return Err(("C20/lost-wakeup".into(), format!("caller actor#{} ({}) is still blocked at the end although every lookup finished", c.actor, if c.waiting { "path" } else { "cached_path" })));
        }
    }

    // single worker per pair when nothing was ever removed
    let workers: Vec<ActorId> = (0..sim.actor_count()).filter(|a| sim.actor_name(*a) == "path-set").collect();
    if removal_events == 0 && !dropped_mgr {
        sim.probe("oracle-single-worker");
        if workers.len() > pairs_requested.len() {
            return Err((
                "C20/double-worker".into(),
                format!("{} workers were started for {} requested pair(s) although no pair was ever removed", workers.len(), pairs_requested.len()),
            ));
        }
        if callers.len() >= 2 {
            sim.probe("concurrent-first-requests");
        }
    }

    // "after the manager is dropped ... every handle reports an error instead of a path": holders of a pair's handle
    // (hook H9) that ask only after the drop is over. They take their handle now and wait behind a gate.
    let gate: Arc<Mutex<(bool, Vec<std::task::Waker>)>> = Arc::new(Mutex::new((false, Vec::new())));
    let late: Arc<Mutex<Vec<(Pair, Result<String, String>)>>> = Arc::new(Mutex::new(Vec::new()));
    let mut late_actors: Vec<ActorId> = Vec::new();
    if let Some(m) = h.mgr.as_ref() {
        for pair in pairs_requested.clone() {
            let (m2, gate2, late2) = (m.clone(), gate.clone(), late.clone());
            late_actors.push(sim.spawn("late-handle-user", async move {
                let fut = scion_stack::path::manager::verif_shim::handle_wait(&m2, pair.0, pair.1);
                drop(m2);
                Gate(gate2).await;
                let r = fut.await;
                late2.lock().unwrap().push((pair, r.map(|p| format!("{:#}", p.fingerprint()))));
            }));
        }
    }
    // (let them take their handles before anything is dropped)
    for _ in 0..400 {
        let r: Vec<ActorId> = sim.runnable().into_iter().filter(|a| late_actors.contains(a)).collect();
        if r.is_empty() {
            break;
        }
        sim.resume(r[0]);
    }

    // drop: cancel what is left, drop the manager, complete lookups: every worker terminates
    for c in callers.iter_mut() {
        if !sim.is_finished(c.actor) {
            c.cancelled = true;
            sim.cancel(c.actor);
        }
    }
    if let Some(m) = h.mgr.take() {
        sim.spawn("dropper", async move {
            drop(m);
        });
    }
    for _ in 0..4000 {
        let runnable = sim.runnable();
        if !runnable.is_empty() {
            let k = if runnable.len() == 1 { 0 } else { sim.idx(runnable.len()) };
            sim.resume(runnable[k]);
            continue;
        }
        let out = h.fetch.lock().unwrap().outstanding();
        if !out.is_empty() {
            h.op_complete(0, true);
            continue;
        }
        break;
    }
    if let Some((id, name, msg)) = sim.take_panic() {
        return Err(("panic".into(), format!("actor {name}#{id}: {msg}")));
    }
    sim.probe("oracle-drop");
    let workers: Vec<ActorId> = (0..sim.actor_count()).filter(|a| sim.actor_name(*a) == "path-set").collect();
    for w in &workers {
        if !sim.is_finished(*w) {
            let st = sim.state(*w);
            return Err((
                "C20/worker-survives-drop".into(),
                format!("worker actor#{w} is still alive ({st:?} at {}) after the last manager handle was dropped and every lookup finished", sim.actor_at(*w)),
            ));
        }
    }
    // the drop is over: the late handle users ask now
    let ws = {
        let mut g = gate.lock().unwrap();
        g.0 = true;
        std::mem::take(&mut g.1)
    };
    for w in ws {
        w.wake();
    }
    for _ in 0..2000 {
        let r = sim.runnable();
        if r.is_empty() {
            break;
        }
        let k = if r.len() == 1 { 0 } else { sim.idx(r.len()) };
        sim.resume(r[k]);
    }
    if let Some((id, name, msg)) = sim.take_panic() {
        return Err(("panic".into(), format!("actor {name}#{id}: {msg}")));
    }
    for a in &late_actors {
        sim.probe("oracle-handle-after-drop");
        if !sim.is_finished(*a) {
            return Err(("C20/handle-blocks-after-drop".into(), format!("a wait on a pair's handle started after the manager was dropped and every worker had terminated never returns (actor#{a})")));
        }
    }
    for (pair, r) in late.lock().unwrap().iter() {
        if let Ok(fp) = r {
            return Err((
                "C20/handle-returns-path-after-drop".into(),
                format!("after the manager was dropped and every worker had terminated, the handle of {}->{} still returned a path ({}) instead of an error", pair.0, pair.1, &fp[..fp.len().min(4)]),
            ));
        }
    }
    Ok(())
}

/// A one-shot gate the driver opens.
struct Gate(Arc<Mutex<(bool, Vec<std::task::Waker>)>>);

impl std::future::Future for Gate {
    type Output = ();
    fn poll(self: std::pin::Pin<&mut Self>, cx: &mut std::task::Context<'_>) -> std::task::Poll<()> {
        let mut g = self.0.lock().unwrap();
        if g.0 {
            return std::task::Poll::Ready(());
        }
        g.1.push(cx.waker().clone());
        std::task::Poll::Pending
    }
}

/// At a point where no actor can run: nobody may be blocked on a lock (deadlock), and no un-cancelled caller may
/// be blocked unless a lookup for its pair is still outstanding (lost wake-up).
fn check_quiescent(h: &mut Hist, callers: &[Caller]) -> RunResult2 {
    let sim = h.sim.clone();
    if !sim.runnable().is_empty() {
        return Ok(());
    }
    for a in sim.blocked() {
        if let AState::LockWait(_) = sim.state(a) {
            return Err(("C20/deadlock".into(), format!("actor {}#{a} waits for a lock at {} and nothing can run", sim.actor_name(a), sim.actor_at(a))));
        }
    }
    for c in callers {
        if c.cancelled || sim.is_finished(c.actor) {
            continue;
        }
        sim.probe("oracle-quiescent-caller");
        if !h.fetch.lock().unwrap().outstanding_for(c.pair) {
            sim.probe("waiter-checked-without-outstanding-lookup");
            return Err((
                "C20/lost-wakeup".into(),
                format!("caller actor#{} is blocked, no lookup for {}->{} is outstanding and no actor can run: nothing will release it", c.actor, c.pair.0, c.pair.1),
            ));
        } else {
            sim.probe("waiter-while-lookup-outstanding");
        }
    }
    Ok(())
}

/// A released caller's outcome is consistent with the lookups that finished: while nothing was ever removed, if
/// every lookup of the pair that finished so far succeeded with a usable path, no waiting caller may be released
/// with an error.
fn check_outcomes(h: &mut Hist, seen: &mut usize, nothing_removed: bool, callers: &[Caller], removal_events: usize, dropped_mgr: bool) -> RunResult2 {
    let hs: Vec<Handout> = {
        let g = h.handouts.lock().unwrap();
        g[*seen..].to_vec()
    };
    *seen += hs.len();
    for x in hs {
        let desc = match &x.res {
            HandRes::Path(p) => format!("path {}", h.route_name(p)),
            HandRes::None => "none".into(),
            HandRes::Err(e) => format!("err({e})"),
        };
        h.sim.log(format!("released c{} {} {desc}", x.caller, x.kind));
        // a caller must not be hit by a removal that was requested before it even asked: its worker may only exit
        // because of a stop / idle expiry / drop issued after the caller arrived
        if let (HandRes::Err(e), Some(c)) = (&x.res, callers.iter().find(|c| c.caller_no == x.caller)) {
            if x.kind == "send" && e.contains("PathSet task exited") && c.removals_before == removal_events && !dropped_mgr {
                h.sim.probe("oracle-stale-removal");
                return Err((
                    "C20/released-by-a-removal-requested-before-the-caller-arrived".into(),
                    format!("caller c{} was released with '{e}' although no stop, idle expiry or drop was requested after it arrived ({} removal request(s) before)", x.caller, c.removals_before),
                ));
            }
        }
        if !nothing_removed || x.kind != "send" || x.pair.0 == x.pair.1 {
            continue;
        }
        if let HandRes::Err(e) = &x.res {
            let now = h.now_secs();
            // (a path inside the near-expiry threshold is not selected by design)
            let thr = h.cfg.min_expiry_threshold.as_secs() as u32;
            let (finished, all_ok) = {
                let st = h.fetch.lock().unwrap();
                let done: Vec<&Req> = st.reqs.iter().filter(|r| r.pair == x.pair && r.done_ns.is_some()).collect();
                let ok = done.iter().all(|r| match &r.outcome {
                    Some(Outcome::Ok(v)) => {
                        // every accepted path of the result is selectable (which of them the manager keeps is its
                        // business: ranking ignores remaining lifetime)
                        let acc: Vec<&sciparse::path::ScionPath> = v.iter().filter(|p| h.policies.accepts(p)).collect();
                        !acc.is_empty() && acc.iter().all(|p| p.expiration().unwrap_or(0) > now + thr + 1)
                    }
                    _ => false,
                });
                (done.len(), ok)
            };
            h.sim.probe("oracle-outcome");
            if all_ok {
                return Err((
                    "C20/released-with-error-although-lookup-succeeded".into(),
                    format!("caller c{} was released with '{e}' although every lookup for {}->{} that finished so far ({finished}) succeeded with a usable path and nothing was ever removed", x.caller, x.pair.0, x.pair.1),
                ));
            }
        }
    }
    Ok(())
}
